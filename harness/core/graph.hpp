// Entity-graph workload engine (DESIGN §2.4): random create / modify / link / unlink / delete operations over all
// entity kinds through the public API. Operands are chosen by enumerating the file itself, so the engine keeps no
// model; the monitors are attached by the drivers (snapshots, invariants, hooks).
#pragma once
#include "core.hpp"
#include "obs.hpp"
#include "arraymodel.hpp"
#include <nix.hpp>

namespace vm {

// ---- hostile name pool
inline std::string uuid_like(Rng &r) { static const char *h = "0123456789abcdef"; std::string s; for (int i = 0; i < 36; i++) s += (i == 8 || i == 13 || i == 18 || i == 23) ? '-' : h[r.u(16)]; return s; }
inline std::string gen_name(Rng &r, long serial, int hostile_pct = 35) {
    if ((int)r.u(100) >= hostile_pct) return "n" + str(serial);
    switch (r.u(14)) {
    case 0: return uuid_like(r);
    case 1: return "..";
    case 2: return "Abc";
    case 3: return "abc";
    case 4: return "a b";
    case 5: return "a  b";
    case 6: return " a";
    case 7: return "a ";
    case 8: return "\xc3\xa4-nfc";               // a-umlaut, NFC
    case 9: return "a\xcc\x88-nfc";              // a + combining diaeresis (NFD of the same glyph)
    case 10: return r.chance(0.5) ? std::string(300 + r.u(50), 'L') + str(serial % 3) : "long-" + std::string(60 + r.u(70), (char)('a' + r.u(26))) + str(serial % 5);
    case 11: return "p%c\\q\"'`$";
    case 12: return "t";                        // equal to the type string used everywhere
    default: return "n" + str(r.u(6));            // likely collides with an existing plain name
    }
}

struct Graph {
    Ctx &c; Rng &r; nix::File f; std::string path; nix::Compression comp = nix::Compression::Auto;
    long serial = 0; int hostile_pct = 35; int max_children = 10;
    bool string_arrays = true;
    explicit Graph(Ctx &cx) : c(cx), r(cx.rng) {}

    void create(const std::string &p) { path = p; comp = r.chance(0.5) ? nix::Compression::Auto : (r.chance(0.5) ? nix::Compression::DeflateNormal : nix::Compression::None); f = nix::File::open(path, nix::FileMode::Overwrite, "hdf5", comp); }
    void close() { if (f && f.isOpen()) f.close(); f = nix::none; }
    void open(nix::FileMode m) { f = nix::File::open(path, m, "hdf5", comp); }
    std::string name() { return gen_name(r, serial++, hostile_pct); }
    // a name that puts the HDF5 path of the new child (container path + "/" + name) right on or next to a power-of-two length:
    // fixed-size path buffers fail at exactly such lengths
    std::string name_at_boundary(const std::string &container_path) {
        static const long targets[] = {63, 64, 65, 127, 128, 129, 255, 256, 257, 511, 512, 513}; long t = r.pick(targets), len = t - (long)container_path.size() - 1;
        if (len < 3) return name(); std::string n = "b" + str(serial++) + "_"; if ((long)n.size() > len) return name(); return n + std::string((size_t)(len - (long)n.size()), 'p');
    }
    std::string child_name(const std::string &container_path) { return r.chance(0.08) ? name_at_boundary(container_path) : name(); }

    // ---- operand selection by enumeration
    bool anyBlock(nix::Block &b) { nix::ndsize_t n = f.blockCount(); if (!n) return false; b = f.getBlock(r.u(n)); return true; }
    bool anySection(nix::Section &s, int *depth = nullptr) {
        nix::ndsize_t n = f.sectionCount(); if (!n) return false; s = f.getSection(r.u(n)); int d = 1;
        while (r.chance(0.5)) { nix::ndsize_t k = s.sectionCount(); if (!k) break; s = s.getSection(r.u(k)); d++; }
        if (depth) *depth = d; return true;
    }
    bool anySource(const nix::Block &b, nix::Source &s, int *depth = nullptr) {
        nix::ndsize_t n = b.sourceCount(); if (!n) return false; s = b.getSource(r.u(n)); int d = 1;
        while (r.chance(0.5)) { nix::ndsize_t k = s.sourceCount(); if (!k) break; s = s.getSource(r.u(k)); d++; }
        if (depth) *depth = d; return true;
    }
    bool anyArray(const nix::Block &b, nix::DataArray &a) { nix::ndsize_t n = b.dataArrayCount(); if (!n) return false; a = b.getDataArray(r.u(n)); return true; }
    bool anyFrame(const nix::Block &b, nix::DataFrame &a) { nix::ndsize_t n = b.dataFrameCount(); if (!n) return false; a = b.getDataFrame(r.u(n)); return true; }
    bool anyTag(const nix::Block &b, nix::Tag &a) { nix::ndsize_t n = b.tagCount(); if (!n) return false; a = b.getTag(r.u(n)); return true; }
    bool anyMTag(const nix::Block &b, nix::MultiTag &a) { nix::ndsize_t n = b.multiTagCount(); if (!n) return false; a = b.getMultiTag(r.u(n)); return true; }
    bool anyGroup(const nix::Block &b, nix::Group &a) { nix::ndsize_t n = b.groupCount(); if (!n) return false; a = b.getGroup(r.u(n)); return true; }

    std::vector<nix::Variant> gen_values(nix::DataType t, size_t n) {
        std::vector<nix::Variant> v;
        for (size_t i = 0; i < n; i++) switch (t) {
            case nix::DataType::Bool: v.emplace_back(r.chance(0.5)); break; case nix::DataType::Int32: v.emplace_back((int32_t)r.next()); break; case nix::DataType::UInt32: v.emplace_back((uint32_t)r.next()); break;
            case nix::DataType::Int64: v.emplace_back((int64_t)r.next()); break; case nix::DataType::UInt64: v.emplace_back((uint64_t)r.next()); break;
            case nix::DataType::Double: { int q = (int)r.u(10);   // wide binary range, or everyday magnitudes with non-terminating binary fractions (thirds, tenths) that any lossy storage would round
                v.emplace_back(q == 0 ? -0.0 : q <= 4 ? (double)r.range(-3000, 3000) / (r.chance(0.5) ? 3.0 : 10.0) : (r.real() - 0.5) * std::ldexp(1.0, (int)r.range(-20, 60))); break; }
            default: v.emplace_back(std::string(r.chance(0.2) ? "" : "s" + str(r.u(1000)) + (r.chance(0.2) ? "\xc3\xa4" : ""))); break;
        }
        return v;
    }
    nix::DataArray make_array(nix::Block &b, const std::string &nm) {
        using namespace nix; static const DataType types[] = {DataType::Double, DataType::Int32, DataType::Int16, DataType::UInt8, DataType::Float, DataType::Int64, DataType::UInt64, DataType::Bool, DataType::String};
        DataType dt = r.pick(types); if (dt == DataType::String && !string_arrays) dt = DataType::Double;
        size_t R = 1 + r.weighted({5, 3, 1}); std::vector<long> shape(R); for (auto &e : shape) e = 1 + (long)r.u(5);
        DataArray a = b.createDataArray(nm, r.chance(0.8) ? "t" : "type " + str(r.u(3)), dt, to_nd(shape));
        ArrayModel m; m.init(dt, shape); std::vector<Val> vals((size_t)m.n()); for (size_t i = 0; i < vals.size(); i++) vals[i] = gen_val(dt, (uint64_t)(serial * 131 + (long)i), r, false);
        if (r.chance(0.85)) { RawBuf buf(dt, vals.size()); buf.pack(vals); a.setData(dt, buf.data(), to_nd(shape), NDSize(R, 0)); }
        return a;
    }
    void add_dimension(nix::DataArray &a) {
        using namespace nix; int k = (int)r.weighted({3, 3, 3, 1, 1});
        if (k == 0) { SampledDimension d = a.appendSampledDimension(r.chance(0.5) ? 0.1 : 0.5 + r.real()); if (r.chance(0.5)) d.label("lbl" + str(r.u(5))); if (r.chance(0.5)) d.unit(r.chance(0.5) ? "ms" : "s"); if (r.chance(0.4)) d.offset((double)r.range(-3, 3) * 0.25); }
        else if (k == 1) { std::vector<double> t; double x = r.real(); size_t n = 1 + r.u(5); for (size_t i = 0; i < n; i++) { t.push_back(x); x += 0.1 + r.real(); } RangeDimension d = a.appendRangeDimension(t); if (r.chance(0.5)) d.label("rl"); if (r.chance(0.5)) d.unit("mV"); }
        else if (k == 2) { std::vector<std::string> l; size_t n = r.u(4); for (size_t i = 0; i < n; i++) l.push_back("L" + str(i)); SetDimension d = a.appendSetDimension(l); if (r.chance(0.3)) d.label("sl"); }
        else if (k == 3) { Block b = f.getBlock(0); (void)b; a.appendAliasRangeDimension(); }
        else { nix::ndsize_t nb = f.blockCount(); for (nix::ndsize_t i = 0; i < nb; i++) { Block b = f.getBlock(i); if (b.hasDataArray(a)) { DataFrame df; if (anyFrame(b, df)) { if (r.chance(0.5)) a.appendDataFrameDimension(df); else a.appendDataFrameDimension(df, (unsigned)r.u(df.columns().size())); } break; } } }
    }
    nix::DataFrame make_frame(nix::Block &b, const std::string &nm) {
        using namespace nix; static const DataType types[] = {DataType::Bool, DataType::Int32, DataType::UInt32, DataType::Int64, DataType::UInt64, DataType::Double, DataType::String};
        size_t nc = 1 + r.u(4); std::vector<Column> cols; for (size_t i = 0; i < nc; i++) cols.push_back({"c" + str(i), r.chance(0.5) ? "mV" : "", r.pick(types)});
        DataFrame df = b.createDataFrame(nm, "t", cols); size_t rows = r.u(5); df.rows(rows);
        for (size_t i = 0; i < rows; i++) { std::vector<Variant> row; for (auto &cdef : cols) row.push_back(gen_values(cdef.dtype, 1)[0]); df.writeRow(i, row); }
        return df;
    }

    // ---- one random operation; exceptions of individual calls are counted, not judged, by the engine
    // kind: 0 create, 1 modify, 2 link, 3 unlink, 4 delete
    void step(const std::vector<int> &kind_weights = {10, 6, 7, 2, 3}) {
        using namespace nix; int kind = (int)r.weighted(kind_weights);
        std::string what = "?";
        try {
            Block b; bool hb = anyBlock(b);
            if (kind == 0) {
                int k = (int)r.weighted({hb ? 1 : 8, 3, 3, hb ? 3 : 0, hb ? 5 : 0, hb ? 3 : 0, hb ? 2 : 0, hb ? 3 : 0, hb ? 2 : 0, hb ? 2 : 0, hb ? 2 : 0});
                switch (k) {
                case 0: what = "createBlock"; c.op(what); if (f.blockCount() < 4) f.createBlock(name(), "t"); break;
                case 1: { what = "createSection"; c.op(what); Section s; int d = 0; if (r.chance(0.6) && anySection(s, &d) && d < 4 && s.sectionCount() < (ndsize_t)max_children) s.createSection(name(), "t"); else if (f.sectionCount() < (ndsize_t)max_children) f.createSection(name(), r.chance(0.7) ? "t" : "other"); break; }
                case 2: { what = "createProperty"; c.op(what); Section s; if (!anySection(s) || s.propertyCount() >= (ndsize_t)max_children) break; static const DataType ts[] = {DataType::Bool, DataType::Int32, DataType::UInt32, DataType::Int64, DataType::UInt64, DataType::Double, DataType::String}; DataType t = r.pick(ts);
                    int o = (int)r.u(3); Property p = o == 0 ? s.createProperty(name(), gen_values(t, 1)[0]) : s.createProperty(name(), gen_values(t, 1 + r.u(5)));
                    if (r.chance(0.4)) p.unit("mV"); if (r.chance(0.3)) p.uncertainty(r.real()); if (r.chance(0.3)) p.definition("pdef"); break; }
                case 3: { what = "createSource"; c.op(what); Source s, made; int d = 0; if (r.chance(0.6) && anySource(b, s, &d) && d < 4 && s.sourceCount() < (ndsize_t)max_children) made = s.createSource(name(), "t"); else if (b.sourceCount() < (ndsize_t)max_children) made = b.createSource(child_name("/data/" + b.name() + "/sources"), "t");
                    if (made && r.chance(0.4)) { made.definition("made"); Section se; if (anySection(se)) made.metadata(se); if (d < 3 && r.chance(0.5)) made.createSource(name(), "t"); } break; }
                case 4: { what = "createDataArray"; c.op(what); if (b.dataArrayCount() < (ndsize_t)max_children) { DataArray a = make_array(b, child_name("/data/" + b.name() + "/data_arrays")); if (r.chance(0.5)) add_dimension(a); } break; }
                case 5: { what = "appendDimension"; c.op(what); DataArray a; if (anyArray(b, a) && a.dimensionCount() < 3) add_dimension(a); break; }
                case 6: { what = "createDataFrame"; c.op(what); if (b.dataFrameCount() < 4) make_frame(b, child_name("/data/" + b.name() + "/data_frames")); break; }
                case 7: { what = "createTag"; c.op(what); if (b.tagCount() >= (ndsize_t)max_children) break; std::vector<double> p; size_t n = 1 + r.u(3); for (size_t i = 0; i < n; i++) p.push_back((double)r.range(-2, 6) * 0.5); Tag t = b.createTag(child_name("/data/" + b.name() + "/tags"), "t", p);
                    if (r.chance(0.6)) { std::vector<double> e; for (size_t i = 0; i < n; i++) e.push_back((double)r.u(4) * 0.5); t.extent(e); } if (r.chance(0.3)) { std::vector<std::string> u(n, "ms"); t.units(u); }
                    if (r.chance(0.5)) { DataArray a; Source so; Section se; if (anyArray(b, a)) { t.addReference(a); if (r.chance(0.4)) t.createFeature(a, LinkType::Untagged); } if (r.chance(0.4) && anySource(b, so)) t.addSource(so); if (r.chance(0.3) && anySection(se)) t.metadata(se); }   // through the creating handle
                    break; }
                case 8: { what = "createMultiTag"; c.op(what); DataArray pa; if (b.multiTagCount() < 5 && anyArray(b, pa)) { MultiTag t = b.createMultiTag(child_name("/data/" + b.name() + "/multi_tags"), "t", pa); if (r.chance(0.3)) { DataArray ea = b.createDataArray(name(), "t", pa.dataType() == DataType::String ? DataType::Double : pa.dataType(), pa.dataExtent()); t.extents(ea); } if (r.chance(0.3)) t.units({"ms"}); } break; }
                case 9: { what = "createGroup"; c.op(what); if (b.groupCount() >= 5) break; Group g = b.createGroup(child_name("/data/" + b.name() + "/groups"), "t");
                    // members are often added through the handle that the create call returned (not a looked-up one)
                    if (r.chance(0.6)) { DataArray a; Tag t; MultiTag m; DataFrame df; if (r.chance(0.6) && anyArray(b, a)) g.addDataArray(a); if (r.chance(0.5) && anyFrame(b, df)) g.addDataFrame(df); if (r.chance(0.4) && anyTag(b, t)) g.addTag(t); if (r.chance(0.4) && anyMTag(b, m)) g.addMultiTag(m); Source so; if (r.chance(0.3) && anySource(b, so)) g.addSource(so); }
                    break; }
                case 10: { what = "createFeature"; c.op(what); DataArray a; if (!anyArray(b, a)) break; LinkType lt = r.pick(std::vector<LinkType>{LinkType::Tagged, LinkType::Untagged, LinkType::Indexed}); Tag t; MultiTag m; if (r.chance(0.5) && anyTag(b, t)) { if (t.featureCount() < 4) t.createFeature(a, lt); } else if (anyMTag(b, m)) { if (m.featureCount() < 4) m.createFeature(a, lt); } break; }
                }
            } else if (kind == 1) {
                int k = (int)r.u(15);
                switch (k) {
                case 9: { what = "feature-linktype"; c.op(what); Tag t; MultiTag m; LinkType lt = r.pick(std::vector<LinkType>{LinkType::Tagged, LinkType::Untagged, LinkType::Indexed}); if (hb && r.chance(0.5) && anyTag(b, t) && t.featureCount()) t.getFeature(r.u(t.featureCount())).linkType(lt); else if (hb && anyMTag(b, m) && m.featureCount()) m.getFeature((size_t)r.u(m.featureCount())).linkType(lt); break; }
                case 10: { what = "feature-data"; c.op(what); Tag t; DataArray a; if (hb && anyTag(b, t) && t.featureCount() && anyArray(b, a)) { Feature ft = t.getFeature(r.u(t.featureCount())); if (r.chance(0.5)) ft.data(a); else ft.data(a.name()); } break; }
                case 11: { what = "tag-units"; c.op(what); Tag t; MultiTag m; if (hb && r.chance(0.5) && anyTag(b, t)) { if (r.chance(0.3)) t.units(nix::none); else t.units(std::vector<std::string>(t.position().size(), r.chance(0.5) ? "s" : "mV")); } else if (hb && anyMTag(b, m)) { if (r.chance(0.3)) m.units(nix::none); else m.units({r.chance(0.5) ? "us" : "kHz"}); } break; }
                case 12: { what = "entity-attrs"; c.op(what); Source so; Group g; DataFrame df; Tag t; int w = (int)r.u(4); if (!hb) break; if (w == 0 && anySource(b, so)) { if (r.chance(0.5)) so.definition("sodef " + str(r.u(5))); else so.type("stype " + str(r.u(3))); } else if (w == 1 && anyGroup(b, g)) { if (r.chance(0.5)) g.definition("gdef"); else g.definition(nix::none); } else if (w == 2 && anyFrame(b, df)) df.definition("dfdef " + str(r.u(4))); else if (w == 3 && anyTag(b, t)) { if (r.chance(0.5)) t.type("ttype " + str(r.u(3))); else t.definition("tdef"); } break; }
                case 13: { what = "frame-write"; c.op(what); DataFrame df; if (hb && anyFrame(b, df) && df.rows()) { std::vector<Variant> row; for (auto &cd : df.columns()) row.push_back(gen_values(cd.dtype, 1)[0]); df.writeRow(r.u(df.rows()), row); } break; }
                case 14: { what = "array-extent"; c.op(what); DataArray a; if (hb && anyArray(b, a)) { NDSize e = a.dataExtent(); bool huge = false; for (size_t q = 0; q < e.size(); q++) if (e[q] > (1u << 20)) huge = true; if (e.size() && !huge) { e[r.u(e.size())] = 1 + r.u(6); a.dataExtent(e); } } break; }
                case 0: { what = "definition"; c.op(what); if (hb) { if (r.chance(0.3)) b.definition(nix::none); else b.definition("def " + str(r.u(9))); } break; }
                case 1: { what = "array-attrs"; c.op(what); DataArray a; if (hb && anyArray(b, a)) { int q = (int)r.u(6); if (q == 0) a.label("lab" + str(r.u(4))); else if (q == 1) a.unit(r.chance(0.5) ? "mV" : "uA"); else if (q == 2) a.expansionOrigin((double)r.range(-3, 3)); else if (q == 3) a.polynomCoefficients({1.0, (double)r.range(1, 4)}); else if (q == 4) a.label(nix::none); else a.type("changed type"); } break; }
                case 2: { what = "tag-attrs"; c.op(what); Tag t; if (hb && anyTag(b, t)) { if (r.chance(0.5)) { std::vector<double> p = t.position(); for (auto &x : p) x += 0.5; t.position(p); } else t.extent(nix::none); } break; }
                case 3: { what = "section-attrs"; c.op(what); Section s; if (anySection(s)) { if (r.chance(0.5)) s.repository("http://repo/" + str(r.u(9))); else s.definition("sdef"); } break; }
                case 4: { what = "property-values"; c.op(what); Section s; if (anySection(s) && s.propertyCount()) { Property p = s.getProperty(r.u(s.propertyCount())); int q = (int)r.u(4); if (q == 0) p.values(gen_values(p.dataType(), 1 + r.u(6))); else if (q == 1) p.unit("ms"); else if (q == 2) p.uncertainty(nix::none); else p.definition("changed"); } break; }
                case 5: { what = "dimension-attrs"; c.op(what); DataArray a; if (hb && anyArray(b, a) && a.dimensionCount()) { Dimension d = a.getDimension(1 + r.u(a.dimensionCount())); DimensionType t = d.dimensionType();
                        if (t == DimensionType::Sample) { auto s = d.asSampledDimension(); if (r.chance(0.5)) s.samplingInterval(0.25 + r.real()); else s.offset(r.chance(0.3) ? 0.0 : (double)r.range(-4, 4)); }
                        else if (t == DimensionType::Range) { auto s = d.asRangeDimension(); if (!s.alias()) { std::vector<double> tk = s.ticks(); for (auto &x : tk) x += 1.0; s.ticks(tk); } else s.label("aliaslbl"); }
                        else if (t == DimensionType::Set) { auto s = d.asSetDimension(); s.labels({"x", "y"}); } } break; }
                case 6: { what = "frame-rows"; c.op(what); DataFrame df; if (hb && anyFrame(b, df)) { df.rows(df.rows() + 1); } break; }
                case 7: { what = "array-data"; c.op(what); DataArray a; if (hb && anyArray(b, a) && a.dataType() == DataType::Double) { NDSize e = a.dataExtent(); if (e.nelms() > 0) { double v = r.real(); a.setData(DataType::Double, &v, NDSize(e.size(), 1), NDSize(e.size(), 0)); } } break; }
                case 8: { what = "type"; c.op(what); Section s; if (anySection(s)) s.type("type " + str(r.u(4))); break; }
                }
            } else if (kind == 2) {
                int k = (int)r.u(10); if (!hb) { c.op("link-skip"); return; }
                switch (k) {
                case 0: { what = "metadata"; c.op(what); Section s; if (!anySection(s)) break; int w = (int)r.u(7); DataArray a; Tag t; MultiTag m; Group g; Source so; DataFrame df;
                    if (w == 0) b.metadata(s); else if (w == 1 && anyArray(b, a)) { if (r.chance(0.5)) a.metadata(s); else a.metadata(s.id()); } else if (w == 2 && anyTag(b, t)) t.metadata(s); else if (w == 3 && anyMTag(b, m)) m.metadata(s); else if (w == 4 && anyGroup(b, g)) g.metadata(s); else if (w == 5 && anySource(b, so)) so.metadata(s); else if (w == 6 && anyFrame(b, df)) df.metadata(s); break; }
                case 1: { what = "section-link"; c.op(what); Section s, t; if (anySection(s) && anySection(t) && s.id() != t.id()) s.link(t); break; }
                case 2: { what = "addSource"; c.op(what); Source so; if (!anySource(b, so)) break; int w = (int)r.u(5); DataArray a; Tag t; MultiTag m; Group g; DataFrame df;
                    if (w == 0 && anyArray(b, a)) a.addSource(so); else if (w == 1 && anyTag(b, t)) t.addSource(so); else if (w == 2 && anyMTag(b, m)) m.addSource(so.id()); else if (w == 3 && anyGroup(b, g)) g.addSource(so); else if (w == 4 && anyFrame(b, df)) df.addSource(so); break; }
                case 3: { what = "addReference"; c.op(what); DataArray a; if (!anyArray(b, a)) break; Tag t; MultiTag m; if (r.chance(0.5) && anyTag(b, t)) { if (r.chance(0.5)) t.addReference(a); else t.addReference(a.id()); } else if (anyMTag(b, m)) m.addReference(a); break; }
                case 4: { what = "group-add"; c.op(what); Group g; if (!anyGroup(b, g)) break; int w = (int)r.u(4); DataArray a; Tag t; MultiTag m; DataFrame df;
                    if (w == 0 && anyArray(b, a)) g.addDataArray(a); else if (w == 1 && anyTag(b, t)) g.addTag(t); else if (w == 2 && anyMTag(b, m)) g.addMultiTag(m); else if (w == 3 && anyFrame(b, df)) g.addDataFrame(df); break; }
                case 5: { what = "mtag-extents"; c.op(what); MultiTag m; if (!anyMTag(b, m)) break; DataArray p = m.positions(); if (!p) break; DataArray ea = b.createDataArray(name(), "t", DataType::Double, p.dataExtent()); m.extents(ea); break; }
                case 6: { what = "mtag-positions"; c.op(what); MultiTag m; DataArray a; if (anyMTag(b, m) && anyArray(b, a) && !m.extents()) m.positions(a); break; }
                case 8: { what = "group-set-members"; c.op(what); Group g; if (!anyGroup(b, g)) break; std::vector<DataArray> v; ndsize_t n = b.dataArrayCount(); for (ndsize_t i = 0; i < n && v.size() < 4; i++) if (r.chance(0.5)) v.push_back(b.getDataArray(i)); for (size_t i = v.size(); i > 1; i--) std::swap(v[i - 1], v[r.u(i)]); g.dataArrays(v); break; }
                case 9: { what = "replace-sources"; c.op(what); DataArray a; if (!anyArray(b, a)) break; std::vector<Source> v; ndsize_t n = b.sourceCount(); for (ndsize_t i = 0; i < n && v.size() < 3; i++) if (r.chance(0.5)) v.push_back(b.getSource(i)); for (size_t i = v.size(); i > 1; i--) std::swap(v[i - 1], v[r.u(i)]); a.sources(v); break; }
                case 7: { what = "replace-references"; c.op(what); Tag t; if (!anyTag(b, t)) break; std::vector<DataArray> v; ndsize_t n = b.dataArrayCount(); for (ndsize_t i = 0; i < n && v.size() < 3; i++) if (r.chance(0.4)) v.push_back(b.getDataArray(i)); t.references(v); break; }
                }
            } else if (kind == 3) {
                int k = (int)r.u(10); if (!hb) { c.op("unlink-skip"); return; }
                switch (k) {
                case 0: { what = "metadata-none"; c.op(what); DataArray a; if (r.chance(0.3)) b.metadata(nix::none); else if (anyArray(b, a)) a.metadata(nix::none); break; }
                case 1: { what = "link-none"; c.op(what); Section s; if (anySection(s)) s.link(nix::none); break; }
                case 2: { what = "removeSource"; c.op(what); DataArray a; if (anyArray(b, a) && a.sourceCount()) a.removeSource(a.getSource(r.u(a.sourceCount()))); break; }
                case 3: { what = "removeReference"; c.op(what); Tag t; if (anyTag(b, t) && t.referenceCount()) t.removeReference(t.getReference(r.u(t.referenceCount()))); break; }
                case 4: { what = "group-remove"; c.op(what); Group g; if (anyGroup(b, g) && g.dataArrayCount()) g.removeDataArray(g.getDataArray((size_t)r.u(g.dataArrayCount()))); break; }
                case 5: { what = "deleteFeature"; c.op(what); Tag t; if (anyTag(b, t) && t.featureCount()) t.deleteFeature(t.getFeature(r.u(t.featureCount()))); break; }
                case 7: { what = "group-remove-other"; c.op(what); Group g; if (!anyGroup(b, g)) break; if (g.tagCount() && r.chance(0.5)) g.removeTag(g.getTag((size_t)r.u(g.tagCount()))); else if (g.multiTagCount()) g.removeMultiTag(g.getMultiTag((size_t)r.u(g.multiTagCount()))); else if (g.dataFrameCount()) g.removeDataFrame(g.getDataFrame(r.u(g.dataFrameCount()))); break; }
                case 8: { what = "mtag-extents-none"; c.op(what); MultiTag m; if (anyMTag(b, m)) m.extents(nix::none); break; }
                case 9: { what = "mtag-deleteFeature"; c.op(what); MultiTag m; if (anyMTag(b, m) && m.featureCount()) m.deleteFeature(m.getFeature((size_t)r.u(m.featureCount()))); break; }
                case 6: { what = "deleteDimensions"; c.op(what); DataArray a; if (anyArray(b, a)) a.deleteDimensions(); break; }
                }
            } else {
                int k = (int)r.weighted({1, 2, 2, 2, 3, 1, 2, 1, 1}); int how = (int)r.u(3);   // how: 0 by name, 1 by id, 2 by handle
                switch (k) {
                case 0: { what = "deleteBlock"; c.op(what); if (hb && f.blockCount() > 1) { if (how == 0) f.deleteBlock(b.name()); else if (how == 1) f.deleteBlock(b.id()); else f.deleteBlock(b); } break; }
                case 1: { what = "deleteSection"; c.op(what); Section s; if (!anySection(s)) break; Section p = s.parent(); if (p) { if (how == 0) p.deleteSection(s.name()); else if (how == 1) p.deleteSection(s.id()); else p.deleteSection(s); } else { if (how == 0) f.deleteSection(s.name()); else if (how == 1) f.deleteSection(s.id()); else f.deleteSection(s); } break; }
                case 2: { what = "deleteProperty"; c.op(what); Section s; if (anySection(s) && s.propertyCount()) { Property p = s.getProperty(r.u(s.propertyCount())); if (how == 0) s.deleteProperty(p.name()); else if (how == 1) s.deleteProperty(p.id()); else s.deleteProperty(p); } break; }
                case 3: { what = "deleteSource"; c.op(what); Source s; if (!hb || !anySource(b, s)) break; Source p = s.parentSource(); if (p) { if (how == 0) p.deleteSource(s.name()); else if (how == 1) p.deleteSource(s.id()); else p.deleteSource(s); } else { if (how == 0) b.deleteSource(s.name()); else if (how == 1) b.deleteSource(s.id()); else b.deleteSource(s); } break; }
                case 4: { what = "deleteDataArray"; c.op(what); DataArray a; if (hb && anyArray(b, a)) { if (how == 0) b.deleteDataArray(a.name()); else if (how == 1) b.deleteDataArray(a.id()); else b.deleteDataArray(a); } break; }
                case 5: { what = "deleteDataFrame"; c.op(what); DataFrame a; if (hb && anyFrame(b, a)) { if (how == 0) b.deleteDataFrame(a.name()); else if (how == 1) b.deleteDataFrame(a.id()); else b.deleteDataFrame(a); } break; }
                case 6: { what = "deleteTag"; c.op(what); Tag a; if (hb && anyTag(b, a)) { if (how == 0) b.deleteTag(a.name()); else if (how == 1) b.deleteTag(a.id()); else b.deleteTag(a); } break; }
                case 7: { what = "deleteMultiTag"; c.op(what); MultiTag a; if (hb && anyMTag(b, a)) { if (how == 0) b.deleteMultiTag(a.name()); else if (how == 1) b.deleteMultiTag(a.id()); else b.deleteMultiTag(a); } break; }
                case 8: { what = "deleteGroup"; c.op(what); Group a; if (hb && anyGroup(b, a)) { if (how == 0) b.deleteGroup(a.name()); else if (how == 1) b.deleteGroup(a.id()); else b.deleteGroup(a); } break; }
                }
            }
            c.fp(what);
        } catch (std::exception &e) {
            c.count("engine_exception:" + what);
            if (c.notes.size() < 8) c.note("engine-exception:" + what + ": " + std::string(e.what()).substr(0, 120));
        }
    }
    void grow(int nops, const std::vector<int> &kind_weights = {10, 6, 7, 2, 3}) { for (int i = 0; i < nops; i++) step(kind_weights); }
};

}  // namespace vm
