// nixmon: workload + monitor engine. One process per case (fork), result records as JSON lines.
#include "core.hpp"
#include <nix.hpp>
#include <nix/verif_hooks.hpp>
#include <hdf5.h>
#include <fcntl.h>
#include <signal.h>
#include <sys/stat.h>
#include <sys/wait.h>
#include <sys/resource.h>
#include <time.h>
#include <fstream>
#include <iostream>

#ifdef VERIF_COV
extern "C" void __gcov_dump(void);   // children leave through _exit: write the counters first (bin/covreport)
#define COV_DUMP() __gcov_dump()
#else
#define COV_DUMP() ((void)0)
#endif

namespace vm {
static std::vector<Driver> &drivers() { static std::vector<Driver> d; return d; }
void register_driver(const Driver &d) { drivers().push_back(d); }
const Driver *find_driver(const std::string &id) { for (auto &d : drivers()) if (id == d.id) return &d; return nullptr; }
static std::map<std::string, HelperFn> &helpers() { static std::map<std::string, HelperFn> h; return h; }
void register_helper(const std::string &name, HelperFn fn) { helpers()[name] = fn; }
std::string self_exe() { char b[4096]; ssize_t n = readlink("/proc/self/exe", b, sizeof b - 1); if (n <= 0) return ""; b[n] = 0; return b; }
}  // namespace vm
using namespace vm;

static double now_s() { timespec ts; clock_gettime(CLOCK_MONOTONIC, &ts); return ts.tv_sec + ts.tv_nsec * 1e-9; }

static std::string read_file(const std::string &p, size_t maxb = 1 << 20) {
    std::ifstream f(p, std::ios::binary); if (!f) return "";
    std::string s((std::istreambuf_iterator<char>(f)), std::istreambuf_iterator<char>());
    if (s.size() > maxb) s = s.substr(0, maxb / 2) + "\n...[cut]...\n" + s.substr(s.size() - maxb / 2);
    return s;
}
static void rm_rf(const std::string &d) { std::string c = "rm -rf '" + d + "'"; int r = system(c.c_str()); (void)r; }

static std::string result_json(const Ctx &c) {
    std::ostringstream o;
    o << "{\"prop\":" << jesc(c.prop) << ",\"tier\":" << jesc(c.tier) << ",\"seed\":" << c.seed << ",\"case\":" << c.index
      << ",\"ops\":" << c.nops << ",\"checks\":" << c.checks << ",\"nontrivial\":" << (c.nontrivial ? "true" : "false")
      << ",\"fp\":\"" << std::hex << hash_str(c.skeleton) << std::dec << "\",\"violations\":[";
    for (size_t i = 0; i < c.violations.size(); i++) o << (i ? "," : "") << "{\"key\":" << jesc(c.violations[i].key) << ",\"detail\":" << jesc(c.violations[i].detail) << "}";
    o << "],\"counters\":{";
    bool first = true; for (auto &kv : c.counters) { o << (first ? "" : ",") << jesc(kv.first) << ":" << kv.second; first = false; }
    o << "},\"notes\":[";
    for (size_t i = 0; i < c.notes.size(); i++) o << (i ? "," : "") << jesc(c.notes[i]);
    o << "],\"trace_head\":[";
    for (size_t i = 0; i < c.trace_head.size(); i++) o << (i ? "," : "") << jesc(c.trace_head[i]);
    o << "]}";
    return o.str();
}

// runs one case in this process; returns the result JSON
static std::string run_inproc(const Driver *d, const std::string &tier, uint64_t seed, uint64_t index, const std::string &witness, const std::string &dir) {
    Ctx c; c.prop = d->id; c.tier = tier; c.seed = seed; c.index = index; c.dir = dir;
    c.rng = Rng(mix(mix(seed, hash_str(std::string(d->id) + "/" + tier)), index));
    c.trace_fd = open((dir + "/trace").c_str(), O_WRONLY | O_CREAT | O_TRUNC, 0644);
    H5Eset_auto2(H5E_DEFAULT, nullptr, nullptr);   // HDF5-DIAG stacks on stderr are noise
    try {
        if (!witness.empty()) d->run_witness(c, witness); else d->run(c);
    } catch (std::exception &e) {
        // an exception escaping a driver is a harness defect or an unexpected library exception
        c.viol(std::string(d->id) + "/harness/uncaught", std::string("uncaught exception in driver: ") + e.what());
    } catch (...) {
        c.viol(std::string(d->id) + "/harness/uncaught", "uncaught non-std exception in driver");
    }
    if (c.trace_fd >= 0) close(c.trace_fd);
    return result_json(c);
}

struct ChildOut { bool timed_out = false; int status = 0; std::string result; double wall = 0; };

static ChildOut run_child(const Driver *d, const std::string &tier, uint64_t seed, uint64_t index, const std::string &witness, const std::string &dir, int timeout_s) {
    ChildOut out; double t0 = now_s();
    mkdir(dir.c_str(), 0755);
    fflush(nullptr);
    pid_t pid = fork();
    if (pid == 0) {
        setpgid(0, 0);
        int efd = open((dir + "/stderr").c_str(), O_WRONLY | O_CREAT | O_TRUNC, 0644);
        dup2(efd, 2); close(efd);
        int nfd = open("/dev/null", O_WRONLY); dup2(nfd, 1); close(nfd);
        struct rlimit rl; rl.rlim_cur = rl.rlim_max = 0; setrlimit(RLIMIT_CORE, &rl);
        std::string r = run_inproc(d, tier, seed, index, witness, dir);
        int rfd = open((dir + "/result").c_str(), O_WRONLY | O_CREAT | O_TRUNC, 0644);
        ssize_t w = write(rfd, r.data(), r.size()); (void)w; close(rfd);
        fflush(nullptr);
        COV_DUMP();
        _exit(0);
    }
    double deadline = t0 + timeout_s;
    for (;;) {
        int st; pid_t r = waitpid(pid, &st, WNOHANG);
        if (r == pid) { out.status = st; break; }
        if (now_s() > deadline) { kill(-pid, SIGKILL); kill(pid, SIGKILL); waitpid(pid, &st, 0); out.timed_out = true; out.status = st; break; }
        struct timespec ts = {0, 2000000}; nanosleep(&ts, nullptr);
    }
    kill(-pid, SIGKILL);   // stray grandchildren of the case (multi-process drivers)
    out.result = read_file(dir + "/result");
    out.wall = now_s() - t0;
    return out;
}

static std::string record(const Driver *d, const std::string &tier, uint64_t seed, uint64_t index, const std::string &witness, const ChildOut &co, const std::string &dir) {
    std::ostringstream o;
    std::string err = read_file(dir + "/stderr", 24000);
    bool ok = !co.timed_out && WIFEXITED(co.status) && WEXITSTATUS(co.status) == 0 && !co.result.empty();
    o << "{\"case\":" << index << ",\"witness\":" << jesc(witness) << ",\"wall\":" << co.wall;
    if (ok) { o << ",\"outcome\":\"done\",\"result\":" << co.result; }
    else {
        std::string trace = read_file(dir + "/trace", 1 << 16);
        // last operation announced before death
        std::string last; { size_t e = trace.find_last_not_of('\n'); if (e != std::string::npos) { size_t b = trace.rfind('\n', e); last = trace.substr(b == std::string::npos ? 0 : b + 1, e - (b == std::string::npos ? 0 : b + 1) + 1); } }
        long nops = 0; for (char ch : trace) if (ch == '\n') nops++;
        o << ",\"outcome\":" << (co.timed_out ? "\"timeout\"" : "\"died\"")
          << ",\"signal\":" << (WIFSIGNALED(co.status) ? WTERMSIG(co.status) : 0)
          << ",\"exit\":" << (WIFEXITED(co.status) ? WEXITSTATUS(co.status) : -1)
          << ",\"last_op\":" << jesc(last) << ",\"ops\":" << nops
          << ",\"trace_tail\":" << jesc(trace.size() > 3000 ? trace.substr(trace.size() - 3000) : trace);
    }
    o << ",\"stderr\":" << jesc(err) << "}";
    (void)d; (void)tier; (void)seed;
    return o.str();
}

static int usage() { fprintf(stderr, "usage: nixmon --prop ID [--tier T --seed S --first I --count N | --witness NAME] --out FILE --scratch DIR [--inproc] | --ncases ID TIER | --list-witnesses ID | --canary K | --list\n"); return 2; }

int main(int argc, char **argv) {
    std::string prop, tier = "quick", witness, out, scratch; uint64_t seed = 1, first = 0, count = 1; bool inproc = false; int timeout_override = 0;
    if (argc >= 3 && std::string(argv[1]) == "--helper") { auto it = helpers().find(argv[2]); if (it == helpers().end()) return 2; H5Eset_auto2(H5E_DEFAULT, nullptr, nullptr); return it->second(argc - 3, argv + 3); }
    for (int i = 1; i < argc; i++) {
        std::string a = argv[i]; auto nx = [&]() -> std::string { return i + 1 < argc ? argv[++i] : ""; };
        if (a == "--prop") prop = nx(); else if (a == "--tier") tier = nx(); else if (a == "--seed") seed = strtoull(nx().c_str(), 0, 10);
        else if (a == "--first") first = strtoull(nx().c_str(), 0, 10); else if (a == "--count") count = strtoull(nx().c_str(), 0, 10);
        else if (a == "--witness") witness = nx(); else if (a == "--out") out = nx(); else if (a == "--scratch") scratch = nx();
        else if (a == "--inproc") inproc = true; else if (a == "--timeout") timeout_override = atoi(nx().c_str());
        else if (a == "--list") { for (auto &d : drivers()) printf("%s\n", d.id); return 0; }
        else if (a == "--ncases") { std::string id = nx(), t = nx(); auto d = find_driver(id); if (!d) return 2; printf("%ld\n", d->ncases(t)); return 0; }
        else if (a == "--list-witnesses") { auto d = find_driver(nx()); if (!d) return 2; if (d->witnesses) for (auto &w : d->witnesses()) printf("%s\n", w.c_str()); return 0; }
        else if (a == "--canary") {
#ifdef NIX_VERIF_HOOKS
            int k = atoi(nx().c_str()); int r = nix::verif::canary(k); fprintf(stderr, "canary %d returned %d\n", k, r); return 0;
#else
            return 2;
#endif
        }
        else return usage();
    }
    const Driver *d = find_driver(prop);
    if (!d || scratch.empty()) return usage();
    int timeout_s = timeout_override ? timeout_override : d->timeout_s * (tier == "thorough" ? 5 : 1);
    if (inproc) {
        std::string dir = scratch + "/inproc-" + std::to_string(first); mkdir(dir.c_str(), 0755);
        std::string r = run_inproc(d, tier, seed, first, witness, dir);
        printf("%s\n", r.c_str());
        return 0;
    }
    FILE *fo = out.empty() ? stdout : fopen(out.c_str(), "a");
    if (!fo) return 2;
    if (!witness.empty()) { count = 1; }
    for (uint64_t i = first; i < first + count; i++) {
        std::string dir = scratch + "/c" + std::to_string(i) + (witness.empty() ? "" : "w");
        ChildOut co = run_child(d, tier, seed, i, witness, dir, timeout_s);
        std::string rec = record(d, tier, seed, i, witness, co, dir);
        fprintf(fo, "%s\n", rec.c_str()); fflush(fo);
        rm_rf(dir);
    }
    if (fo != stdout) fclose(fo);
    return 0;
}
