// Small helpers on the HDF5 C API (used by monitors that need to look below the nix API).
#pragma once
#include <hdf5.h>
#include <string>
#include <vector>
#include <cstring>

namespace vm {

// id of a file that is currently open in this process (as opened by nix), or -1
inline hid_t open_file_id() {
    ssize_t n = H5Fget_obj_count((hid_t)H5F_OBJ_ALL, H5F_OBJ_FILE); if (n <= 0) return -1;
    std::vector<hid_t> ids((size_t)n); if (H5Fget_obj_ids((hid_t)H5F_OBJ_ALL, H5F_OBJ_FILE, (size_t)n, ids.data()) <= 0) return -1;
    return ids[0];
}

struct ReachCtx { std::string needle; hid_t found; };
inline std::string entity_id_attr(hid_t o) {
    if (H5Aexists(o, "entity_id") <= 0) return "";
    hid_t a = H5Aopen(o, "entity_id", H5P_DEFAULT); if (a < 0) return "";
    hid_t t = H5Aget_type(a); char *s = nullptr; std::string val;
    if (H5Tis_variable_str(t) > 0) { if (H5Aread(a, t, &s) >= 0 && s) { val = s; H5free_memory(s); } }
    else { size_t sz = H5Tget_size(t); std::vector<char> buf(sz + 1, 0); if (H5Aread(a, t, buf.data()) >= 0) val = buf.data(); }
    H5Tclose(t); H5Aclose(a);
    return val;
}
// H5Ovisit hands the callback the *root* of the walk and the path of the visited object relative to it
inline herr_t reach_cb(hid_t root, const char *name, const H5O_info_t *info, void *op) {
    ReachCtx *c = (ReachCtx *)op;
    (void)info;
    hid_t o = H5Oopen(root, name, H5P_DEFAULT); if (o < 0) return 0;
    if (entity_id_attr(o) == c->needle) { c->found = o; return 1; }
    H5Oclose(o);
    return 0;
}
// an open HDF5 handle on the object carrying this entity_id, if one is reachable from the root group through any chain of links; else -1.
// The caller closes it with H5Oclose.
inline hid_t entity_open(const std::string &entity_id) {
    hid_t f = open_file_id(); if (f < 0) return -1;
    ReachCtx c{entity_id, -1};
    H5Ovisit(f, H5_INDEX_NAME, H5_ITER_NATIVE, reach_cb, &c);
    return c.found;
}
inline bool entity_reachable(const std::string &entity_id) { hid_t o = entity_open(entity_id); if (o < 0) return false; H5Oclose(o); return true; }
// number of hard links HDF5 itself counts for the object behind a handle (-1: cannot tell)
inline long h5_link_count(hid_t o) { H5O_info_t oi; if (o < 0 || H5Oget_info(o, &oi) < 0) return -1; return (long)oi.rc; }

}  // namespace vm
