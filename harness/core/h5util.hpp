// Small helpers on the HDF5 C API (used by monitors that need to look below the nix API).
#pragma once
#include <hdf5.h>
#include <string>
#include <vector>
#include <cstring>

namespace vm {

// id of a file that is currently open in this process (as opened by nix), or -1
inline hid_t open_file_id() {
    ssize_t n = H5Fget_obj_count((hid_t)H5F_OBJ_ALL, H5F_OBJ_FILE); if (n <= 0) return -1;
    std::vector<hid_t> ids((size_t)n); if (H5Fget_obj_ids((hid_t)H5F_OBJ_ALL, H5F_OBJ_FILE, (size_t)n, ids.data()) <= 0) return -1;
    return ids[0];
}

struct ReachCtx { std::string needle; bool found; };
inline herr_t reach_cb(hid_t obj, const char *, const H5O_info_t *, void *op) {
    ReachCtx *c = (ReachCtx *)op;
    if (H5Aexists(obj, "entity_id") <= 0) return 0;
    hid_t a = H5Aopen(obj, "entity_id", H5P_DEFAULT); if (a < 0) return 0;
    hid_t t = H5Aget_type(a); char *s = nullptr; std::string val;
    if (H5Tis_variable_str(t) > 0) { if (H5Aread(a, t, &s) >= 0 && s) { val = s; H5free_memory(s); } }
    else { size_t sz = H5Tget_size(t); std::vector<char> buf(sz + 1, 0); if (H5Aread(a, t, buf.data()) >= 0) val = buf.data(); }
    H5Tclose(t); H5Aclose(a);
    if (val == c->needle) { c->found = true; return 1; }
    return 0;
}
// is an object carrying this entity_id reachable from the root group through any chain of links?
inline bool entity_reachable(const std::string &entity_id) {
    hid_t f = open_file_id(); if (f < 0) return false;
    ReachCtx c{entity_id, false};
    H5Ovisit(f, H5_INDEX_NAME, H5_ITER_NATIVE, reach_cb, &c);
    return c.found;
}

}  // namespace vm
