// Axis model and brute-force index/box oracle (DESIGN §2.4). Shared by C05 C06 C07 C17 C18.
#pragma once
#include "core.hpp"
#include <nix.hpp>
#include <nix/util/dataAccess.hpp>
#include <cmath>
#include <limits>

namespace vm {

struct Axis {
    enum Kind { Sampled = 0, Range = 1, Set = 2, Frame = 3 } kind = Sampled;
    double dt = 1.0, off = 0.0;           // sampled
    std::vector<double> ticks;            // range
    long nlabels = 0;                     // set: 0 = no labels = unbounded
    long rows = 0;                        // frame
    std::string unit;                     // "" = none
    static constexpr long UNBOUNDED = 1L << 46;
    const char *kname() const { static const char *n[] = {"sampled", "range", "set", "frame"}; return n[kind]; }
    // coordinate of index i, computed exactly like the library defines it
    double x(long i) const {
        switch (kind) {
        case Sampled: { volatile double a = (double)i * dt; volatile double b = a + off; return b; }
        case Range: return ticks[(size_t)i];
        default: return (double)i;
        }
    }
    long bound() const {
        switch (kind) {
        case Sampled: return UNBOUNDED;
        case Range: return (long)ticks.size();
        case Set: return nlabels > 0 ? nlabels : UNBOUNDED;
        default: return rows;
        }
    }
    std::string describe() const {
        std::ostringstream o; o << kname();
        if (kind == Sampled) o << "(dt=" << dstr(dt) << ",off=" << dstr(off) << ")";
        else if (kind == Range) { o << "(n=" << ticks.size(); if (!ticks.empty()) o << "," << dstr(ticks.front()) << ".." << dstr(ticks.back()); o << ")"; }
        else if (kind == Set) o << "(labels=" << nlabels << ")";
        else o << "(rows=" << rows << ")";
        if (!unit.empty()) o << "[" << unit << "]";
        return o.str();
    }
};

// largest i with x_i <= p (strict: x_i < p); -1 if none. Exact double comparisons, x monotone.
inline long idxLE(const Axis &a, double p, bool strict) {
    long n = a.bound(); if (n <= 0 || std::isnan(p)) return -1;
    auto ok = [&](long i) { double v = a.x(i); return strict ? v < p : v <= p; };
    if (!ok(0)) return -1;
    long lo = 0, hi = n - 1;
    while (lo < hi) { long m = lo + (hi - lo + 1) / 2; if (ok(m)) lo = m; else hi = m - 1; }
    return lo;
}
// smallest i with x_i >= p (strict: x_i > p); -1 if none
inline long idxGE(const Axis &a, double p, bool strict) {
    long n = a.bound(); if (n <= 0 || std::isnan(p)) return -1;
    long k = idxLE(a, p, !strict);   // largest i with x_i < p  (or <= p when strict)
    long r = k + 1;
    return r < n ? r : -1;
}
inline long idxEQ(const Axis &a, double p) { long k = idxLE(a, p, false); return (k >= 0 && a.x(k) == p) ? k : -1; }

inline long oracle_index(const Axis &a, double p, nix::PositionMatch m) {
    switch (m) {
    case nix::PositionMatch::Less: return idxLE(a, p, true);
    case nix::PositionMatch::LessOrEqual: return idxLE(a, p, false);
    case nix::PositionMatch::GreaterOrEqual: return idxGE(a, p, false);
    case nix::PositionMatch::Greater: return idxGE(a, p, true);
    default: return idxEQ(a, p);
    }
}
inline const char *match_name(nix::PositionMatch m) {
    switch (m) { case nix::PositionMatch::Less: return "Less"; case nix::PositionMatch::LessOrEqual: return "LessOrEqual";
    case nix::PositionMatch::GreaterOrEqual: return "GreaterOrEqual"; case nix::PositionMatch::Greater: return "Greater"; default: return "Equal"; }
}
inline const char *rm_name(nix::RangeMatch m) { return m == nix::RangeMatch::Inclusive ? "Inclusive" : "Exclusive"; }

// pair conversion: valid iff start <= end, both indices exist and are ordered
struct PairIdx { bool valid = false; long lo = -1, hi = -1; };
inline PairIdx oracle_pair(const Axis &a, double s, double e, nix::RangeMatch m) {
    PairIdx r; if (!(s <= e)) return r;
    long lo = idxGE(a, s, false), hi = idxLE(a, e, m == nix::RangeMatch::Exclusive);
    if (lo < 0 || hi < 0 || lo > hi) return r;
    r.valid = true; r.lo = lo; r.hi = hi; return r;
}

// per-dimension region of a tag / slice (DESIGN §2.4). n = stored extent along the dimension.
struct Region { bool oob = false; long lo = 0, hi = 0; std::string why; };
inline Region region_unspecified(long n) { Region r; if (n <= 0) { r.oob = true; r.why = "empty-dim"; } r.lo = 0; r.hi = n - 1; return r; }
// point: first element at or after p
inline Region region_point(const Axis &a, double p, long n) {
    Region r; long k = idxGE(a, p, false);
    if (k < 0) { r.oob = true; r.why = "no-index"; return r; }
    r.lo = r.hi = k; if (k >= n) { r.oob = true; r.why = "beyond-data"; } return r;
}
inline Region region_range(const Axis &a, double s, double e, nix::RangeMatch m, long n) {
    Region r; PairIdx p = oracle_pair(a, s, e, m);
    if (!p.valid) { r.oob = true; r.why = "empty"; return r; }
    r.lo = p.lo; r.hi = p.hi; if (p.hi >= n) { r.oob = true; r.why = "beyond-data"; } return r;
}

// is the sampled axis strictly ascending around index i (needed for the property's premise x_0 < x_1 < ...)?
inline bool strictly_ascending_near(const Axis &a, long i, long w = 3) {
    long n = a.bound();
    for (long k = std::max(0L, i - w); k < std::min(n - 1, i + w); k++) if (!(a.x(k) < a.x(k + 1))) return false;
    return true;
}

// ----- generators
inline Axis gen_sampled(Rng &r) {
    static const double dts[] = {1.0, 0.1, 0.001, 1.0 / 3, 0.25, 2.5e-5, 1e3, 0.5, 0.2, 0.05, 3.0, 1e-3 * 7};
    static const double offs[] = {0.0, 0.0, 0.1, -0.1, 1.0 / 3, -1.0 / 3, 1e6 + 0.1, 1.0, -1.0, 0.25, 17.3, -250.0};
    Axis a; a.kind = Axis::Sampled;
    a.dt = r.chance(0.8) ? r.pick(dts) : std::ldexp(0.5 + r.real(), (int)r.range(-12, 10));
    a.off = r.chance(0.8) ? r.pick(offs) : (r.real() - 0.5) * std::ldexp(1.0, (int)r.range(-4, 12));
    return a;
}
inline Axis gen_range(Rng &r, long n) {
    Axis a; a.kind = Axis::Range; double t = r.chance(0.5) ? -std::ldexp(r.real(), (int)r.range(0, 8)) : std::ldexp(r.real(), (int)r.range(-3, 8));
    int style = (int)r.u(4);
    for (long i = 0; i < n; i++) {
        a.ticks.push_back(t);
        switch (style) {
        case 0: t += 0.1 + r.u(20) * 0.05; break;                  // irregular decimal steps
        case 1: t = std::nextafter(t, INFINITY); if (r.chance(0.5)) t += r.real(); break;  // some 1-ulp neighbours
        case 2: t += std::ldexp(1.0, (int)r.range(-10, 4)); break; // binary steps
        default: t += r.real() * 3 + 1e-9; break;
        }
    }
    return a;
}

}  // namespace vm
