// Virtual clock: nixmon defines time() itself, so that libnixio's util::getTime() (= time(NULL)) sees a clock the
// harness can advance without sleeping. Used to separate sessions by "more than a second" (timestamps that are
// re-stamped on open / on an idle read-write session only become visible when the clock has moved on).
#include <ctime>
#include <time.h>
namespace vm { long g_clock_skew = 0; void advance_clock(long secs) { g_clock_skew += secs; } }
extern "C" time_t time(time_t *out) {
    struct timespec ts; clock_gettime(CLOCK_REALTIME, &ts);
    time_t t = ts.tv_sec + vm::g_clock_skew;
    if (out) *out = t;
    return t;
}
