// Virtual clock: nixmon defines time() itself, so that libnixio's util::getTime() (= time(NULL)) sees a clock the
// harness can advance without sleeping. Used to separate sessions by "more than a second" (timestamps that are
// re-stamped on open / on an idle read-write session only become visible when the clock has moved on).
#include <ctime>
#include <time.h>
#include <cstdlib>
namespace vm { long g_clock_skew = 0; long g_clock_pinned = 0; void advance_clock(long secs) { g_clock_skew += secs; } void pin_clock(long t) { g_clock_pinned = t; } }
// VERIF_PIN_TIME=<epoch seconds> in the environment freezes the clock of a freshly exec'ed process (C12: processes
// that start "within the same second", made deterministic)
extern "C" time_t time(time_t *out) {
    static bool env_read = false; if (!env_read) { env_read = true; const char *e = getenv("VERIF_PIN_TIME"); if (e && *e) vm::g_clock_pinned = atol(e); }
    struct timespec ts; clock_gettime(CLOCK_REALTIME, &ts);
    time_t t = (vm::g_clock_pinned ? vm::g_clock_pinned : ts.tv_sec) + vm::g_clock_skew;
    if (out) *out = t;
    return t;
}
