// nixmon core: rng, json, case context, driver registry.
#pragma once
#include <cstdint>
#include <cstdio>
#include <cstring>
#include <cmath>
#include <functional>
#include <map>
#include <set>
#include <sstream>
#include <string>
#include <vector>
#include <iomanip>
#include <unistd.h>

namespace vm {

// ---------------------------------------------------------------- rng (splitmix64 / xoshiro256**)
struct Rng {
    uint64_t s[4];
    static uint64_t sm(uint64_t &x) { uint64_t z = (x += 0x9e3779b97f4a7c15ULL); z = (z ^ (z >> 30)) * 0xbf58476d1ce4e5b9ULL; z = (z ^ (z >> 27)) * 0x94d049bb133111ebULL; return z ^ (z >> 31); }
    explicit Rng(uint64_t seed = 1) { uint64_t x = seed; for (auto &v : s) v = sm(x); }
    static uint64_t rotl(uint64_t x, int k) { return (x << k) | (x >> (64 - k)); }
    uint64_t next() { uint64_t r = rotl(s[1] * 5, 7) * 9, t = s[1] << 17; s[2] ^= s[0]; s[3] ^= s[1]; s[1] ^= s[2]; s[0] ^= s[3]; s[2] ^= t; s[3] = rotl(s[3], 45); return r; }
    // uniform in [0,n)
    uint64_t u(uint64_t n) { return n ? next() % n : 0; }
    int64_t range(int64_t lo, int64_t hi) { return lo + (int64_t)u((uint64_t)(hi - lo + 1)); }  // inclusive
    bool chance(double p) { return real() < p; }
    double real() { return (next() >> 11) * (1.0 / 9007199254740992.0); }
    template <typename T> const T &pick(const std::vector<T> &v) { return v[u(v.size())]; }
    template <typename T, size_t N> const T &pick(const T (&v)[N]) { return v[u(N)]; }
    // weighted choice, returns index
    size_t weighted(const std::vector<int> &w) { int tot = 0; for (int x : w) tot += x; int r = (int)u(tot); for (size_t i = 0; i < w.size(); i++) { if (r < w[i]) return i; r -= w[i]; } return w.size() - 1; }
};
inline uint64_t mix(uint64_t a, uint64_t b) { uint64_t x = a * 0x9e3779b97f4a7c15ULL ^ (b + 0x7f4a7c15ULL + (a << 6) + (a >> 2)); return Rng::sm(x); }
inline uint64_t hash_str(const std::string &s) { uint64_t h = 1469598103934665603ULL; for (unsigned char c : s) { h ^= c; h *= 1099511628211ULL; } return h; }

// ---------------------------------------------------------------- json (writer only)
inline std::string jesc(const std::string &s) {
    std::string o; o.reserve(s.size() + 2); o += '"';
    for (unsigned char c : s) {
        switch (c) {
        case '"': o += "\\\""; break; case '\\': o += "\\\\"; break; case '\n': o += "\\n"; break;
        case '\r': o += "\\r"; break; case '\t': o += "\\t"; break;
        default: if (c < 0x20 || c >= 0x7f) { char b[8]; snprintf(b, sizeof b, "\\u%04x", c); o += b; } else o += (char)c;
        }
    }
    o += '"'; return o;
}
template <typename T> std::string str(const T &v) { std::ostringstream o; o << std::setprecision(17) << v; return o.str(); }
inline std::string dstr(double d) { char b[64]; snprintf(b, sizeof b, "%.17g", d); return b; }
inline std::string hexd(double d) { char b[64]; snprintf(b, sizeof b, "%a", d); return b; }

// ---------------------------------------------------------------- case context
struct Violation { std::string key, detail; };

struct Ctx {
    std::string prop, tier;
    uint64_t seed = 1, index = 0;
    Rng rng;
    std::string dir;          // scratch directory of this case (exists, removed by the parent)
    int trace_fd = -1;        // op trace, written before each operation (survives a crash)
    long nops = 0;
    std::vector<std::string> trace_head;          // first ops (for samples)
    std::map<std::string, long> counters;         // measured evidence counters
    std::vector<Violation> violations;
    std::set<std::string> viol_keys;
    std::string skeleton;                          // structural fingerprint input
    bool nontrivial = false;
    long checks = 0;                               // oracle evaluations
    std::vector<std::string> notes;                // unjudged / observations
    bool quick() const { return tier == "quick"; }
    std::string path(const std::string &name) const { return dir + "/" + name; }

    // announce an operation before it is executed
    void op(const std::string &what) {
        nops++;
        if (trace_fd >= 0) { std::string l = what + "\n"; ssize_t r = write(trace_fd, l.data(), l.size()); (void)r; }
        if (trace_head.size() < 60) trace_head.push_back(what.size() > 300 ? what.substr(0, 300) + "..." : what);
        auto sp = what.find_first_of(" (");
        counters["op:" + what.substr(0, sp)]++;
    }
    void count(const std::string &k, long n = 1) { counters[k] += n; }
    void fp(const std::string &tok) { skeleton += tok; skeleton += ';'; }
    void note(const std::string &n) { if (notes.size() < 20) notes.push_back(n); counters["note:" + n.substr(0, n.find(':'))]++; }
    void viol(const std::string &key, const std::string &detail) {
        counters["violations"]++;
        if (viol_keys.insert(key).second && violations.size() < 12) violations.push_back({key, detail.size() > 1500 ? detail.substr(0, 1500) + "..." : detail});
    }
    // one oracle evaluation
    bool check(bool ok, const std::string &key, const std::function<std::string()> &detail) { checks++; if (!ok) viol(key, detail()); return ok; }
    bool check(bool ok, const std::string &key, const std::string &detail) { checks++; if (!ok) viol(key, detail); return ok; }
};

// ---------------------------------------------------------------- registry
struct Driver {
    const char *id;
    // number of generated cases per tier
    long (*ncases)(const std::string &tier);
    void (*run)(Ctx &);                                   // one generated case
    std::vector<std::string> (*witnesses)();              // names of pinned cases
    void (*run_witness)(Ctx &, const std::string &name);   // one pinned case
    int timeout_s;                                         // per-case watchdog (quick); thorough = x5
};
void register_driver(const Driver &d);
const Driver *find_driver(const std::string &id);
struct Reg { explicit Reg(const Driver &d) { register_driver(d); } };
void advance_clock(long secs);   // virtual clock seen by the library (core/clock.cpp)
void pin_clock(long t);
// helper entry points that a driver wants to run in a freshly exec'ed process: nixmon --helper NAME args...
typedef int (*HelperFn)(int argc, char **argv);
void register_helper(const std::string &name, HelperFn fn);
struct RegHelper { RegHelper(const std::string &n, HelperFn f) { register_helper(n, f); } };
std::string self_exe();

}  // namespace vm
