// Shared pieces for the retrieval properties (C05 C06 C17 C18): arrays that hold their own linear index,
// random dimension descriptors, position generators, box decoding.
#pragma once
#include "core.hpp"
#include "axis.hpp"
#include "arraymodel.hpp"

namespace vm {

struct RArray {
    nix::DataArray da; std::vector<Axis> ax; std::vector<long> shape;
    size_t rank() const { return shape.size(); }
    std::string describe() const { std::string s = "shape=" + vshow(shape) + " axes="; for (auto &a : ax) s += a.describe() + " "; return s; }
};

struct RArrayOpts { bool units = false; bool frames = true; bool odd_ticks = false; int max_extent = 9; };

// creates an array of Double that holds its own linear (row-major) index, with one random descriptor per dimension
inline RArray make_rarray(Ctx &c, nix::Block &b, const std::string &name, size_t rank, const RArrayOpts &o = RArrayOpts()) {
    using namespace nix; Rng &r = c.rng; RArray A; A.shape.resize(rank);
    for (auto &e : A.shape) e = 2 + (long)r.u(o.max_extent - 1);
    if (r.chance(0.1)) A.shape[r.u(rank)] = 1;
    A.da = b.createDataArray(name, "t", DataType::Double, to_nd(A.shape));
    long n = ArrayModel::nelms(A.shape); std::vector<double> lin((size_t)n); for (long i = 0; i < n; i++) lin[(size_t)i] = (double)i;
    A.da.setData(DataType::Double, lin.data(), to_nd(A.shape), NDSize(rank, 0));
    static const char *time_units[] = {"s", "ms", "us"}; static const char *volt_units[] = {"V", "mV", "uV"};
    for (size_t d = 0; d < rank; d++) {
        long nd = A.shape[d]; Axis ax; int kind = (int)r.weighted({5, 4, 3, o.frames ? 2 : 0});
        if (kind == Axis::Sampled) {
            for (int attempt = 0; attempt < 10; attempt++) { ax = gen_sampled(r); bool ok = true; for (long i = 0; i < nd + 6 && ok; i++) ok = ax.x(i) < ax.x(i + 1); if (ok) break; ax = Axis(); }
            SampledDimension sd = A.da.appendSampledDimension(ax.dt); if (ax.off != 0.0) sd.offset(ax.off);
            if (o.units && r.chance(0.7)) { ax.unit = r.pick(time_units); sd.unit(ax.unit); }
        } else if (kind == Axis::Range) {
            long nt = nd; if (o.odd_ticks && r.chance(0.15)) nt = nd + 2;
            ax = gen_range(r, nt); RangeDimension rd = A.da.appendRangeDimension(ax.ticks);
            if (o.units && r.chance(0.7)) { ax.unit = r.pick(volt_units); rd.unit(ax.unit); }
        } else if (kind == Axis::Set) {
            ax.kind = Axis::Set; ax.nlabels = r.chance(0.5) ? nd : 0; std::vector<std::string> l; for (long i = 0; i < ax.nlabels; i++) l.push_back("l" + str(i));
            A.da.appendSetDimension(l);
        } else {
            ax.kind = Axis::Frame; ax.rows = nd; std::vector<Column> cols = {{"k", "", DataType::Int64}, {"v", "mV", DataType::Double}};
            DataFrame df = b.createDataFrame(name + "-frame" + str(d), "t", cols); df.rows((ndsize_t)nd);
            if (r.chance(0.5)) A.da.appendDataFrameDimension(df); else A.da.appendDataFrameDimension(df, 0u);
        }
        A.ax.push_back(ax);
        c.count(std::string("axis:") + ax.kname());
    }
    return A;
}

// a second index-holding array with the same shape and the same dimension descriptors as A
inline RArray make_rarray_like(Ctx &c, nix::Block &b, const std::string &name, const RArray &A) {
    using namespace nix; RArray B; B.shape = A.shape; B.ax = A.ax; size_t rank = A.rank();
    B.da = b.createDataArray(name, "t", DataType::Double, to_nd(B.shape));
    long n = ArrayModel::nelms(B.shape); std::vector<double> lin((size_t)n); for (long i = 0; i < n; i++) lin[(size_t)i] = (double)i;
    B.da.setData(DataType::Double, lin.data(), to_nd(B.shape), NDSize(rank, 0));
    for (size_t d = 0; d < rank; d++) {
        const Axis &ax = B.ax[d];
        if (ax.kind == Axis::Sampled) { SampledDimension sd = B.da.appendSampledDimension(ax.dt); if (ax.off != 0.0) sd.offset(ax.off); if (!ax.unit.empty()) sd.unit(ax.unit); }
        else if (ax.kind == Axis::Range) { RangeDimension rd = B.da.appendRangeDimension(ax.ticks); if (!ax.unit.empty()) rd.unit(ax.unit); }
        else if (ax.kind == Axis::Set) { std::vector<std::string> l; for (long i = 0; i < ax.nlabels; i++) l.push_back("l" + str(i)); B.da.appendSetDimension(l); }
        else { std::vector<Column> cols = {{"k", "", DataType::Int64}}; DataFrame df = b.createDataFrame(name + "-frame" + str(d), "t", cols); df.rows((ndsize_t)ax.rows); B.da.appendDataFrameDimension(df, 0u); }
    }
    return B;
}

// a position near index i of an axis with n stored elements; cls receives the class name
inline double gen_position(const Axis &a, long n, long i, Rng &r, std::string &cls) {
    long nb = a.bound();
    auto coord = [&](long k) -> double {   // extrapolate beyond bounded axes
        if (k >= 0 && k < nb) return a.x(k);
        if (a.kind == Axis::Range) { double step = a.ticks.size() > 1 ? (a.ticks.back() - a.ticks.front()) / (double)(a.ticks.size() - 1) : 1.0; return k < 0 ? a.ticks.front() + step * (double)k : a.ticks.back() + step * (double)(k - nb + 1); }
        return (double)k * (a.kind == Axis::Sampled ? a.dt : 1.0) + (a.kind == Axis::Sampled ? a.off : 0.0);
    };
    double p = coord(i); int k = (int)r.weighted({5, 2, 2, 3});
    cls = i < 0 ? "below" : (i >= n ? "above" : "");
    if (k == 0) { cls += "on"; return p; }
    if (k == 1) { cls += "ulp+"; return std::nextafter(p, INFINITY); }
    if (k == 2) { cls += "ulp-"; return std::nextafter(p, -INFINITY); }
    double q = coord(i + 1); cls += "mid"; double m = p + (q - p) * (0.1 + 0.8 * r.real()); return m;
}

// expected content of a box of an index-holding array, row-major
inline std::vector<double> box_content(const std::vector<long> &shape, const std::vector<long> &lo, const std::vector<long> &hi) {
    std::vector<double> out; std::vector<long> cnt(lo.size()); for (size_t d = 0; d < lo.size(); d++) cnt[d] = hi[d] - lo[d] + 1;
    ArrayModel::for_box(lo, cnt, [&](const std::vector<long> &i) { out.push_back((double)ArrayModel::lin(shape, i)); });
    return out;
}
inline std::string dshow(const std::vector<double> &v, size_t maxn = 12) { std::string s = "["; for (size_t i = 0; i < v.size() && i < maxn; i++) s += (i ? "," : "") + dstr(v[i]); if (v.size() > maxn) s += ",...(" + str(v.size()) + ")"; return s + "]"; }

// outcome of one retrieval call
struct Got { bool threw = false, oob = false; std::string exc; std::vector<long> count; std::vector<double> data; };
template <typename F> inline Got retrieve(F f) {
    Got g;
    try { nix::DataView v = f(); nix::NDSize e = v.dataExtent(); g.count = from_nd(e); size_t n = (size_t)e.nelms(); g.data.resize(n); if (n) v.getData(nix::DataType::Double, g.data.data(), e, nix::NDSize(e.size(), 0)); }
    catch (nix::OutOfBounds &e) { g.threw = g.oob = true; g.exc = std::string("OutOfBounds: ") + e.what(); }
    catch (std::exception &e) { g.threw = true; g.exc = e.what(); }
    return g;
}
struct Box { bool oob = false; std::string why; std::vector<long> lo, hi; };
inline std::string box_show(const Box &b) { if (b.oob) return "OutOfBounds(" + b.why + ")"; std::string s; for (size_t d = 0; d < b.lo.size(); d++) s += (d ? " x " : "") + str(b.lo[d]) + ".." + str(b.hi[d]); return s; }
// compare: returns "" if the retrieval equals the box
inline std::string compare_box(const RArray &A, const Box &want, const Got &got) {
    if (want.oob) return got.threw ? "" : "expected an out-of-bounds error (" + want.why + ") but got data " + dshow(got.data) + " count=" + vshow(got.count);
    if (got.threw) return "expected box " + box_show(want) + " but the call threw: " + got.exc;
    std::vector<double> w = box_content(A.shape, want.lo, want.hi);
    if (w != got.data) return "expected box " + box_show(want) + " = elements " + dshow(w) + " but got count=" + vshow(got.count) + " elements " + dshow(got.data);
    return "";
}

// expected region of a tag (or of one multi-tag row) on array A. d6 != 0 models the library's padding of
// unspecified dimensions (known finding D6): position x_0 and "extent" x_{n-1}, i.e. the range [x_0, x_0 + x_{n-1}];
// d6 == 1: Tag (mode forced to Inclusive when the tag has no extent), d6 == 2: MultiTag (mode as given).
inline Box tag_box(const RArray &A, const std::vector<double> &pos, const std::vector<double> &ext, bool has_ext,
                   const std::vector<double> &factor, nix::RangeMatch m, int d6) {
    Box b; size_t R = A.rank(); b.lo.resize(R); b.hi.resize(R);
    for (size_t d = 0; d < R; d++) {
        const Axis &ax = A.ax[d]; long n = A.shape[d]; Region rg;
        if (d >= pos.size()) {
            if (!d6) rg = region_unspecified(n);
            else {
                double x0 = ax.x(0), xl = ax.x(n - 1);
                if (xl == 0.0) rg = region_point(ax, x0, n);
                else rg = region_range(ax, x0, x0 + xl, (has_ext || d6 == 2) ? m : nix::RangeMatch::Inclusive, n);
            }
        } else {
            double f = factor.empty() ? 1.0 : factor[d]; double p = pos[d], e = has_ext ? ext[d] : 0.0;
            if (e == 0.0) rg = region_point(ax, p * f, n);
            else rg = region_range(ax, p * f, (p + e) * f, m, n);
        }
        if (rg.oob) { b.oob = true; b.why = "dim" + str(d) + ":" + rg.why; return b; }
        b.lo[d] = rg.lo; b.hi[d] = rg.hi;
    }
    return b;
}

}  // namespace vm
