// Dense n-d cell model for DataArray contents (C01, C17 views, C02 data). Values are kept as raw bits
// of the element type (or a string), so comparisons are bit-exact.
#pragma once
#include "core.hpp"
#include <nix.hpp>
#include <cfloat>
#include <climits>

namespace vm {

inline size_t esize(nix::DataType t) { return t == nix::DataType::String ? sizeof(std::string) : nix::data_type_to_size(t); }
inline std::string dtname(nix::DataType t) { return nix::data_type_to_string(t); }

struct Val {
    uint64_t bits = 0; std::string s;
    bool operator==(const Val &o) const { return bits == o.bits && s == o.s; }
    bool operator!=(const Val &o) const { return !(*this == o); }
};

template <typename T> inline Val val_of(T v) { Val r; static_assert(sizeof(T) <= 8, ""); memcpy(&r.bits, &v, sizeof(T)); return r; }
inline Val val_of_str(const std::string &s) { Val r; r.s = s; return r; }
template <typename T> inline T val_as(const Val &v) { T t; memcpy(&t, &v.bits, sizeof(T)); return t; }

// numeric value of a cell as long double (for conversion / calibration oracles); only for numeric types
inline long double val_num(nix::DataType t, const Val &v) {
    using nix::DataType;
    switch (t) {
    case DataType::Int8: return val_as<int8_t>(v); case DataType::Int16: return val_as<int16_t>(v); case DataType::Int32: return val_as<int32_t>(v); case DataType::Int64: return val_as<int64_t>(v);
    case DataType::UInt8: return val_as<uint8_t>(v); case DataType::UInt16: return val_as<uint16_t>(v); case DataType::UInt32: return val_as<uint32_t>(v); case DataType::UInt64: return val_as<uint64_t>(v);
    case DataType::Float: return val_as<float>(v); case DataType::Double: return val_as<double>(v); case DataType::Bool: return val_as<uint8_t>(v) ? 1 : 0;
    default: return 0;
    }
}
// encode a numeric value into the bits of type t; returns false if not exactly representable
inline bool num_to_val(nix::DataType t, long double x, Val &out) {
    using nix::DataType;
    auto fits = [&](long double lo, long double hi) { return x >= lo && x <= hi && x == std::floor(x); };
    switch (t) {
    case DataType::Int8: if (!fits(INT8_MIN, INT8_MAX)) return false; out = val_of<int8_t>((int8_t)x); return true;
    case DataType::Int16: if (!fits(INT16_MIN, INT16_MAX)) return false; out = val_of<int16_t>((int16_t)x); return true;
    case DataType::Int32: if (!fits(INT32_MIN, INT32_MAX)) return false; out = val_of<int32_t>((int32_t)x); return true;
    case DataType::Int64: if (!fits((long double)INT64_MIN, (long double)INT64_MAX)) return false; out = val_of<int64_t>((int64_t)x); return true;
    case DataType::UInt8: if (!fits(0, UINT8_MAX)) return false; out = val_of<uint8_t>((uint8_t)x); return true;
    case DataType::UInt16: if (!fits(0, UINT16_MAX)) return false; out = val_of<uint16_t>((uint16_t)x); return true;
    case DataType::UInt32: if (!fits(0, UINT32_MAX)) return false; out = val_of<uint32_t>((uint32_t)x); return true;
    case DataType::UInt64: if (!fits(0, (long double)UINT64_MAX)) return false; out = val_of<uint64_t>((uint64_t)x); return true;
    case DataType::Float: { float f = (float)x; if ((long double)f != x) return false; out = val_of<float>(f); return true; }
    case DataType::Double: { double d = (double)x; if ((long double)d != x) return false; out = val_of<double>(d); return true; }
    default: return false;
    }
}
inline std::string val_show(nix::DataType t, const Val &v) {
    using nix::DataType;
    if (t == DataType::String) return "\"" + (v.s.size() > 40 ? v.s.substr(0, 40) + "..." : v.s) + "\"";
    if (t == DataType::Float) return hexd(val_as<float>(v)); if (t == DataType::Double) return hexd(val_as<double>(v));
    if (t == DataType::Int8 || t == DataType::Int16 || t == DataType::Int32 || t == DataType::Int64) { long long i = t == DataType::Int8 ? val_as<int8_t>(v) : t == DataType::Int16 ? val_as<int16_t>(v) : t == DataType::Int32 ? val_as<int32_t>(v) : val_as<int64_t>(v); return str(i); }
    return str((unsigned long long)v.bits);
}

// exact conversion between numeric element types without long double (valgrind computes long double in 64 bits):
// false when the source value is not exactly representable in the target type
inline bool is_int_type(nix::DataType t) { using nix::DataType; return t == DataType::Int8 || t == DataType::Int16 || t == DataType::Int32 || t == DataType::Int64 || t == DataType::UInt8 || t == DataType::UInt16 || t == DataType::UInt32 || t == DataType::UInt64 || t == DataType::Bool; }
inline bool int_to_val(nix::DataType t, __int128 i, Val &out) {
    using nix::DataType;
    auto in = [&](__int128 lo, __int128 hi) { return i >= lo && i <= hi; };
    switch (t) {
    case DataType::Int8: if (!in(INT8_MIN, INT8_MAX)) return false; out = val_of<int8_t>((int8_t)i); return true;
    case DataType::Int16: if (!in(INT16_MIN, INT16_MAX)) return false; out = val_of<int16_t>((int16_t)i); return true;
    case DataType::Int32: if (!in(INT32_MIN, INT32_MAX)) return false; out = val_of<int32_t>((int32_t)i); return true;
    case DataType::Int64: if (!in(INT64_MIN, INT64_MAX)) return false; out = val_of<int64_t>((int64_t)i); return true;
    case DataType::UInt8: if (!in(0, UINT8_MAX)) return false; out = val_of<uint8_t>((uint8_t)i); return true;
    case DataType::UInt16: if (!in(0, UINT16_MAX)) return false; out = val_of<uint16_t>((uint16_t)i); return true;
    case DataType::UInt32: if (!in(0, UINT32_MAX)) return false; out = val_of<uint32_t>((uint32_t)i); return true;
    case DataType::UInt64: if (!in(0, (__int128)UINT64_MAX)) return false; out = val_of<uint64_t>((uint64_t)i); return true;
    case DataType::Float: { float f = (float)(int64_t)(i > INT64_MAX ? 0 : i); if (i > INT64_MAX) f = (float)(uint64_t)i; if (!(std::fabs(f) < 3e38f) || (__int128)f != i) return false; out = val_of<float>(f); return true; }
    case DataType::Double: { double d = i > INT64_MAX ? (double)(uint64_t)i : (double)(int64_t)i; if ((__int128)d != i) return false; out = val_of<double>(d); return true; }
    default: return false;
    }
}
inline bool exact_convert(nix::DataType st, const Val &sv, nix::DataType tt, Val &out) {
    using nix::DataType;
    if (is_int_type(st)) {
        __int128 i = st == DataType::Int8 ? val_as<int8_t>(sv) : st == DataType::Int16 ? val_as<int16_t>(sv) : st == DataType::Int32 ? val_as<int32_t>(sv) : st == DataType::Int64 ? (__int128)val_as<int64_t>(sv)
                   : st == DataType::UInt8 ? val_as<uint8_t>(sv) : st == DataType::UInt16 ? val_as<uint16_t>(sv) : st == DataType::UInt32 ? (__int128)val_as<uint32_t>(sv) : st == DataType::Bool ? (val_as<uint8_t>(sv) ? 1 : 0) : (__int128)val_as<uint64_t>(sv);
        return int_to_val(tt, i, out);
    }
    double x = st == DataType::Float ? (double)val_as<float>(sv) : val_as<double>(sv);
    if (!std::isfinite(x)) return false;
    if (tt == DataType::Double) { out = val_of<double>(x); return true; }
    if (tt == DataType::Float) { float f = (float)x; if (!std::isfinite(f) || (double)f != x) return false; out = val_of<float>(f); return true; }
    if (x != std::floor(x) || !(x > -9.3e18 && x < 1.85e19)) return false;       // both bounds lie outside every integer type and inside __int128
    return int_to_val(tt, (__int128)x, out);
}

// value generator: `ord` is the global write ordinal (unique per written cell)
inline Val gen_val(nix::DataType t, uint64_t ord, Rng &r, bool small_ints) {
    using nix::DataType;
    if (t == DataType::String) {
        int k = (int)r.u(12);
        if (k == 0) return val_of_str("");
        if (k == 1) return val_of_str("w" + str(ord) + "-" + std::string(200 + r.u(3000), 'x'));
        if (k == 2) return val_of_str("w" + str(ord) + "-\xc3\xa4\xe2\x82\xac\xf0\x9f\x98\x80");
        return val_of_str("w" + str(ord));
    }
    if (small_ints) {   // calibration-friendly: small integers, exact under any polynomial evaluation order
        long double x = (long double)r.range(-100, 100);
        if (t == DataType::UInt8 || t == DataType::UInt16 || t == DataType::UInt32 || t == DataType::UInt64) x = (long double)r.range(0, 200);
        if (t == DataType::Bool) return val_of<uint8_t>((uint8_t)r.u(2));
        Val v; num_to_val(t, x, v); return v;
    }
    bool extreme = r.chance(0.04);
    switch (t) {
    case DataType::Bool: return val_of<uint8_t>((uint8_t)(ord & 1));
    case DataType::Int8: return val_of<int8_t>(extreme ? (r.chance(0.5) ? INT8_MIN : INT8_MAX) : (int8_t)(ord % 251 - 125));
    case DataType::UInt8: return val_of<uint8_t>(extreme ? UINT8_MAX : (uint8_t)(1 + ord % 254));
    case DataType::Int16: return val_of<int16_t>(extreme ? (r.chance(0.5) ? INT16_MIN : INT16_MAX) : (int16_t)(ord % 65001 - 32500));
    case DataType::UInt16: return val_of<uint16_t>(extreme ? UINT16_MAX : (uint16_t)(1 + ord % 65000));
    case DataType::Int32: return val_of<int32_t>(extreme ? (r.chance(0.5) ? INT32_MIN : INT32_MAX) : (int32_t)(r.chance(0.5) ? (int64_t)ord + 1 : -(int64_t)ord - 1));
    case DataType::UInt32: return val_of<uint32_t>(extreme ? UINT32_MAX : (uint32_t)(ord + 1 + (r.chance(0.3) ? 0x80000000u : 0)));
    case DataType::Int64: return val_of<int64_t>(extreme ? (r.chance(0.5) ? INT64_MIN : INT64_MAX) : (int64_t)((ord + 1) * (r.chance(0.3) ? 0x100000001LL : 1)) * (r.chance(0.5) ? 1 : -1));
    case DataType::UInt64: return val_of<uint64_t>(extreme ? UINT64_MAX : (uint64_t)(ord + 1) + (r.chance(0.3) ? 0x8000000000000000ULL : 0));
    case DataType::Float: { if (extreme) { static const float ex[] = {FLT_MAX, -FLT_MAX, FLT_MIN, 1e-45f, -0.0f, INFINITY, -INFINITY}; return val_of<float>(r.pick(ex)); } return val_of<float>((float)(ord % 1000000) + 0.5f); }
    case DataType::Double: { if (extreme) { static const double ex[] = {DBL_MAX, -DBL_MAX, DBL_MIN, 4.9e-324, -0.0, INFINITY, -INFINITY, 0.1}; return val_of<double>(r.pick(ex)); } return val_of<double>((double)ord + 0.25); }
    default: return Val();
    }
}

struct ArrayModel {
    nix::DataType dt = nix::DataType::Double;
    std::vector<long> shape;
    std::vector<Val> cells;
    size_t rank() const { return shape.size(); }
    static long nelms(const std::vector<long> &s) { long n = 1; for (long x : s) n *= x; return s.empty() ? 0 : n; }
    long n() const { return nelms(shape); }
    static long lin(const std::vector<long> &shape, const std::vector<long> &idx) { long l = 0; for (size_t d = 0; d < shape.size(); d++) l = l * shape[d] + idx[d]; return l; }
    void init(nix::DataType t, const std::vector<long> &s) { dt = t; shape = s; cells.assign((size_t)n(), Val()); }
    // iterate a box (offset,count) in row-major order
    template <typename F> static void for_box(const std::vector<long> &off, const std::vector<long> &cnt, F f) {
        size_t r = off.size(); if (nelms(cnt) <= 0) return;
        std::vector<long> idx(off);
        for (;;) {
            f(idx);
            size_t d = r;
            while (d-- > 0) { if (++idx[d] < off[d] + cnt[d]) break; idx[d] = off[d]; if (d == 0) return; }
            if (r == 0) return;
        }
    }
    void write_box(const std::vector<long> &off, const std::vector<long> &cnt, const std::vector<Val> &vals) { size_t k = 0; for_box(off, cnt, [&](const std::vector<long> &i) { cells[(size_t)lin(shape, i)] = vals[k++]; }); }
    std::vector<Val> read_box(const std::vector<long> &off, const std::vector<long> &cnt) const { std::vector<Val> out; out.reserve((size_t)nelms(cnt)); for_box(off, cnt, [&](const std::vector<long> &i) { out.push_back(cells[(size_t)lin(shape, i)]); }); return out; }
    // new extent: surviving cells keep their value, exposed cells are zero / ""
    void resize(const std::vector<long> &ns) {
        std::vector<Val> nc((size_t)nelms(ns), Val());
        std::vector<long> common(ns.size()); bool any = true; for (size_t d = 0; d < ns.size(); d++) { common[d] = std::min(ns[d], shape[d]); if (common[d] <= 0) any = false; }
        if (any) for_box(std::vector<long>(ns.size(), 0), common, [&](const std::vector<long> &i) { nc[(size_t)lin(ns, i)] = cells[(size_t)lin(shape, i)]; });
        shape = ns; cells.swap(nc);
    }
};

inline nix::NDSize to_nd(const std::vector<long> &v) { nix::NDSize s(v.size()); for (size_t i = 0; i < v.size(); i++) s[i] = (nix::ndsize_t)v[i]; return s; }
inline std::vector<long> from_nd(const nix::NDSize &s) { std::vector<long> v(s.size()); for (size_t i = 0; i < s.size(); i++) v[i] = (long)s[i]; return v; }
inline std::string vshow(const std::vector<long> &v) { std::string s = "["; for (size_t i = 0; i < v.size(); i++) s += (i ? "," : "") + str(v[i]); return s + "]"; }

// raw buffers: pack/unpack Vals to the memory layout of dtype
struct RawBuf {
    nix::DataType dt; std::vector<uint8_t> bytes; std::vector<std::string> strs;
    RawBuf(nix::DataType t, size_t n, uint8_t fill = 0) : dt(t) { if (t == nix::DataType::String) strs.assign(n, std::string("\x01sentinel")); else bytes.assign(n * nix::data_type_to_size(t), fill); }
    void *data() { return dt == nix::DataType::String ? (void *)strs.data() : (void *)bytes.data(); }
    void pack(const std::vector<Val> &v) { size_t es = dt == nix::DataType::String ? 0 : nix::data_type_to_size(dt); for (size_t i = 0; i < v.size(); i++) { if (dt == nix::DataType::String) strs[i] = v[i].s; else memcpy(&bytes[i * es], &v[i].bits, es); } }
    std::vector<Val> unpack(size_t n) const { std::vector<Val> v(n); size_t es = dt == nix::DataType::String ? 0 : nix::data_type_to_size(dt); for (size_t i = 0; i < n; i++) { if (dt == nix::DataType::String) v[i].s = strs[i]; else memcpy(&v[i].bits, &bytes[i * es], es); } return v; }
};

// compare and describe the first differing cell
inline std::string first_diff(nix::DataType t, const std::vector<Val> &want, const std::vector<Val> &got, const std::vector<long> &off, const std::vector<long> &cnt) {
    if (want.size() != got.size()) return "size " + str(got.size()) + " != " + str(want.size());
    size_t k = 0; std::string out; long nd = 0;
    ArrayModel::for_box(off, cnt, [&](const std::vector<long> &i) { if (want[k] != got[k]) { if (nd == 0) out = "cell " + vshow(i) + " got " + val_show(t, got[k]) + " want " + val_show(t, want[k]); nd++; } k++; });
    return nd ? out + " (" + str(nd) + " of " + str(want.size()) + " cells differ)" : "";
}

static const nix::DataType ALL_TYPES[] = {nix::DataType::Bool, nix::DataType::Int8, nix::DataType::Int16, nix::DataType::Int32, nix::DataType::Int64, nix::DataType::UInt8,
    nix::DataType::UInt16, nix::DataType::UInt32, nix::DataType::UInt64, nix::DataType::Float, nix::DataType::Double, nix::DataType::String};
inline bool is_numeric(nix::DataType t) { return t != nix::DataType::Bool && t != nix::DataType::String; }

}  // namespace vm
