// Snapshot observer: walks a file through public getters only and returns a canonical tree (DESIGN §2.4).
// Used as a relational oracle: before/after close+reopen (C02), before/after a rejected call (C08),
// before/after a delete with a snapshot transform (C04), ReadOnly / ReadWrite sessions (C09), crash recovery (C11).
#pragma once
#include "core.hpp"
#include <nix.hpp>

namespace vm {

struct ONode {
    std::string kind, id, name;
    std::vector<std::pair<std::string, std::string>> attrs;                 // scalar facts
    std::vector<std::pair<std::string, std::vector<std::string>>> links;   // role -> target ids (order = index order)
    std::vector<ONode> children;                                           // index order
    void attr(const std::string &k, const std::string &v) { attrs.emplace_back(k, v); }
};

struct ObsOpts { bool data = true; bool updated_at = false; };

class Observer {
public:
    ObsOpts o; long getters = 0;
    explicit Observer(ObsOpts opts = ObsOpts()) : o(opts) {}
    template <typename F> std::string safe(F f) { getters++; try { return f(); } catch (std::exception &e) { return std::string("<exc:") + typeid(e).name() + ">"; } catch (...) { return "<exc:?>"; } }
    static std::string opt(const boost::optional<std::string> &s) { return s ? "\"" + *s + "\"" : "none"; }
    static std::string optd(const boost::optional<double> &d) { return d ? hexd(*d) : "none"; }
    static std::string vd(const std::vector<double> &v) { std::string s = "["; for (double d : v) s += hexd(d) + ","; return s + "]"; }
    static std::string vs(const std::vector<std::string> &v) { std::string s = "["; for (auto &d : v) s += "\"" + d + "\","; return s + "]"; }

    template <typename E> void entity(ONode &n, const E &e) {   // id, created_at (+ updated_at if asked)
        n.id = safe([&] { return e.id(); });
        n.attr("created_at", safe([&] { return str((long long)e.createdAt()); }));
        if (o.updated_at) n.attr("updated_at", safe([&] { return str((long long)e.updatedAt()); }));
    }
    template <typename E> void named(ONode &n, const E &e) {
        entity(n, e);
        n.name = safe([&] { return e.name(); });
        n.attr("type", safe([&] { return e.type(); }));
        n.attr("definition", safe([&] { return opt(e.definition()); }));
    }
    // single-target links: none and "getter throws" both mean absent
    template <typename F> void single(ONode &n, const std::string &role, F f) {
        getters++; std::vector<std::string> t;
        try { std::string id = f(); if (!id.empty()) t.push_back(id); } catch (...) {}
        n.links.emplace_back(role, t);
    }
    template <typename E> void meta(ONode &n, const E &e) { single(n, "metadata", [&] { nix::Section m = e.metadata(); return m ? m.id() : std::string(); }); }
    template <typename E> void sources(ONode &n, const E &e) {
        getters++; std::vector<std::string> t; try { for (auto &s : e.sources()) t.push_back(s.id()); } catch (std::exception &ex) { t.push_back(std::string("<exc:") + typeid(ex).name() + ">"); }
        n.links.emplace_back("sources", t);
    }

    ONode dimension(const nix::Dimension &d) {
        using namespace nix; ONode n; n.kind = "dimension";
        n.attr("index", safe([&] { return str(d.index()); }));
        DimensionType t = DimensionType::Set; try { t = d.dimensionType(); } catch (...) { n.attr("type", "<exc>"); return n; }
        n.attr("type", util::dimTypeToStr(t)); n.name = "dim";
        if (t == DimensionType::Sample) { auto s = d.asSampledDimension(); n.attr("label", safe([&] { return opt(s.label()); })); n.attr("unit", safe([&] { return opt(s.unit()); })); n.attr("interval", safe([&] { return hexd(s.samplingInterval()); })); n.attr("offset", safe([&] { return optd(s.offset()); })); }
        else if (t == DimensionType::Range) { auto s = d.asRangeDimension(); n.attr("label", safe([&] { return opt(s.label()); })); n.attr("unit", safe([&] { return opt(s.unit()); })); n.attr("alias", safe([&] { return str(s.alias()); })); n.attr("ticks", safe([&] { return vd(s.ticks()); })); }
        else if (t == DimensionType::Set) { auto s = d.asSetDimension(); n.attr("label", safe([&] { return opt(s.label()); })); n.attr("labels", safe([&] { return vs(s.labels()); })); }
        else { auto s = d.asDataFrameDimension(); single(n, "frame", [&] { DataFrame df = s.data(); return df ? df.id() : std::string(); }); n.attr("column", safe([&] { auto ci = s.columnIndex(); return ci ? str(*ci) : std::string("none"); })); }
        return n;
    }
    std::string array_data(const nix::DataArray &a) {
        using namespace nix; NDSize e = a.dataExtent(); size_t n = e.size() ? (size_t)e.nelms() : 0; std::string out;
        if (n == 0 || n > 200000) return "n=" + str(n);
        DataType dt = a.dataType();
        if (dt == DataType::String) { std::vector<std::string> v(n); a.getDataDirect(DataType::String, v.data(), e, NDSize(e.size(), 0)); for (auto &s : v) out += "\"" + s + "\","; }
        else if (dt == DataType::UInt64) { std::vector<uint64_t> v(n); a.getDataDirect(dt, v.data(), e, NDSize(e.size(), 0)); for (auto x : v) out += str(x) + ","; }
        else if (dt == DataType::Int64 || dt == DataType::Int32 || dt == DataType::Int16 || dt == DataType::Int8 || dt == DataType::UInt32 || dt == DataType::UInt16 || dt == DataType::UInt8) { std::vector<int64_t> v(n); a.getDataDirect(DataType::Int64, v.data(), e, NDSize(e.size(), 0)); for (auto x : v) out += str(x) + ","; }
        else if (dt == DataType::Bool) { std::vector<uint8_t> v(n); a.getDataDirect(DataType::Bool, v.data(), e, NDSize(e.size(), 0)); for (auto x : v) out += x ? "1" : "0"; }
        else { std::vector<double> v(n); a.getDataDirect(DataType::Double, v.data(), e, NDSize(e.size(), 0)); for (double x : v) out += hexd(x) + ","; }
        return out;
    }
    ONode array(const nix::DataArray &a) {
        ONode n; n.kind = "data_array"; named(n, a); meta(n, a); sources(n, a);
        n.attr("label", safe([&] { return opt(a.label()); })); n.attr("unit", safe([&] { return opt(a.unit()); }));
        n.attr("origin", safe([&] { return optd(a.expansionOrigin()); })); n.attr("polynom", safe([&] { return vd(a.polynomCoefficients()); }));
        n.attr("dtype", safe([&] { return nix::data_type_to_string(a.dataType()); }));
        n.attr("extent", safe([&] { std::string s; nix::NDSize e = a.dataExtent(); for (size_t i = 0; i < e.size(); i++) s += str(e[i]) + ","; return s; }));
        if (o.data) n.attr("data", safe([&] { return array_data(a); }));
        nix::ndsize_t dc = 0; try { dc = a.dimensionCount(); } catch (...) { n.attr("dimensionCount", "<exc>"); }
        for (nix::ndsize_t i = 1; i <= dc; i++) { try { n.children.push_back(dimension(a.getDimension(i))); } catch (std::exception &e) { ONode x; x.kind = "dimension"; x.name = std::string("<exc:") + typeid(e).name() + ">"; n.children.push_back(x); } }
        return n;
    }
    ONode frame(const nix::DataFrame &cf) {
        nix::DataFrame f = cf; ONode n; n.kind = "data_frame"; named(n, f); meta(n, f); sources(n, f);
        n.attr("columns", safe([&] { std::string s; for (auto &c : f.columns()) s += c.name + ":" + c.unit + ":" + nix::data_type_to_string(c.dtype) + ","; return s; }));
        n.attr("rows", safe([&] { return str(f.rows()); }));
        if (o.data) n.attr("cells", safe([&] { std::ostringstream x; x << std::setprecision(17); nix::ndsize_t rows = f.rows(); for (nix::ndsize_t r = 0; r < rows && r < 2000; r++) { for (auto &v : f.readRow(r)) x << v << ","; x << ";"; } return x.str(); }));
        return n;
    }
    ONode feature(const nix::Feature &f) {
        ONode n; n.kind = "feature"; entity(n, f); n.name = "feature";
        n.attr("link_type", safe([&] { return nix::link_type_to_string(f.linkType()); }));
        single(n, "data", [&] { nix::DataArray d = f.data(); return d ? d.id() : std::string(); });
        return n;
    }
    template <typename T> void basetag(ONode &n, const T &t) {
        named(n, t); meta(n, t); sources(n, t);
        n.attr("units", safe([&] { return vs(t.units()); }));
        { getters++; std::vector<std::string> r; try { for (auto &a : t.references()) r.push_back(a.id()); } catch (std::exception &e) { r.push_back(std::string("<exc:") + typeid(e).name() + ">"); } n.links.emplace_back("references", r); }
        try { for (auto &f : t.features()) n.children.push_back(feature(f)); } catch (std::exception &e) { ONode x; x.kind = "feature"; x.name = std::string("<exc:") + typeid(e).name() + ">"; n.children.push_back(x); }
    }
    ONode tag(const nix::Tag &t) { ONode n; n.kind = "tag"; basetag(n, t); n.attr("position", safe([&] { return vd(t.position()); })); n.attr("extent", safe([&] { return vd(t.extent()); })); return n; }
    ONode mtag(const nix::MultiTag &t) {
        ONode n; n.kind = "multi_tag"; basetag(n, t);
        single(n, "positions", [&] { nix::DataArray a = t.positions(); return a ? a.id() : std::string(); });
        single(n, "extents", [&] { nix::DataArray a = t.extents(); return a ? a.id() : std::string(); });
        return n;
    }
    ONode group(const nix::Group &g) {
        ONode n; n.kind = "group"; named(n, g); meta(n, g); sources(n, g);
        auto ids = [&](const char *role, std::function<std::vector<std::string>()> f) { getters++; std::vector<std::string> r; try { r = f(); } catch (std::exception &e) { r.push_back(std::string("<exc:") + typeid(e).name() + ">"); } n.links.emplace_back(role, r); };
        ids("data_arrays", [&] { std::vector<std::string> r; for (auto &a : g.dataArrays()) r.push_back(a.id()); return r; });
        ids("data_frames", [&] { std::vector<std::string> r; for (auto &a : g.dataFrames()) r.push_back(a.id()); return r; });
        ids("tags", [&] { std::vector<std::string> r; for (auto &a : g.tags()) r.push_back(a.id()); return r; });
        ids("multi_tags", [&] { std::vector<std::string> r; for (auto &a : g.multiTags()) r.push_back(a.id()); return r; });
        return n;
    }
    ONode source(const nix::Source &s, int depth = 0) {
        ONode n; n.kind = "source"; named(n, s); meta(n, s);
        if (depth < 12) { try { for (auto &c : s.sources()) n.children.push_back(source(c, depth + 1)); } catch (std::exception &e) { ONode x; x.kind = "source"; x.name = std::string("<exc:") + typeid(e).name() + ">"; n.children.push_back(x); } }
        return n;
    }
    ONode property(const nix::Property &p) {
        ONode n; n.kind = "property"; entity(n, p); n.name = safe([&] { return p.name(); });
        n.attr("definition", safe([&] { return opt(p.definition()); })); n.attr("dtype", safe([&] { return nix::data_type_to_string(p.dataType()); }));
        n.attr("unit", safe([&] { return opt(p.unit()); })); n.attr("uncertainty", safe([&] { return optd(p.uncertainty()); }));
        n.attr("value_count", safe([&] { return str(p.valueCount()); }));
        n.attr("values", safe([&] { std::string s; for (auto &v : p.values()) { nix::DataType t = v.type(); if (t == nix::DataType::Double) s += hexd(v.get<double>()); else if (t == nix::DataType::String) s += "\"" + v.get<std::string>() + "\""; else { std::ostringstream x; x << v; s += x.str(); } s += ","; } return s; }));
        return n;
    }
    ONode section(const nix::Section &s, int depth = 0) {
        ONode n; n.kind = "section"; named(n, s);
        n.attr("repository", safe([&] { return opt(s.repository()); }));
        single(n, "link", [&] { nix::Section l = s.link(); return l ? l.id() : std::string(); });
        try { for (auto &p : s.properties()) n.children.push_back(property(p)); } catch (std::exception &e) { ONode x; x.kind = "property"; x.name = std::string("<exc:") + typeid(e).name() + ">"; n.children.push_back(x); }
        if (depth < 12) { try { for (auto &c : s.sections()) n.children.push_back(section(c, depth + 1)); } catch (std::exception &e) { ONode x; x.kind = "section"; x.name = std::string("<exc:") + typeid(e).name() + ">"; n.children.push_back(x); } }
        return n;
    }
    ONode block(const nix::Block &b) {
        ONode n; n.kind = "block"; named(n, b); meta(n, b);
        auto kids = [&](const char *kind, std::function<void()> f) { try { f(); } catch (std::exception &e) { ONode x; x.kind = kind; x.name = std::string("<exc:") + typeid(e).name() + ">"; n.children.push_back(x); } };
        kids("data_array", [&] { for (auto &a : b.dataArrays()) n.children.push_back(array(a)); });
        kids("data_frame", [&] { for (auto &a : b.dataFrames()) n.children.push_back(frame(a)); });
        kids("tag", [&] { for (auto &a : b.tags()) n.children.push_back(tag(a)); });
        kids("multi_tag", [&] { for (auto &a : b.multiTags()) n.children.push_back(mtag(a)); });
        kids("group", [&] { for (auto &a : b.groups()) n.children.push_back(group(a)); });
        kids("source", [&] { for (auto &a : b.sources()) n.children.push_back(source(a)); });
        return n;
    }
    ONode file(const nix::File &f) {
        ONode n; n.kind = "file"; n.name = "file";
        n.id = safe([&] { return f.id(); }); n.attr("format", safe([&] { return f.format(); }));
        n.attr("version", safe([&] { auto v = f.version(); return str(v[0]) + "." + str(v[1]) + "." + str(v[2]); }));
        n.attr("created_at", safe([&] { return str((long long)f.createdAt()); }));
        if (o.updated_at) n.attr("updated_at", safe([&] { return str((long long)f.updatedAt()); }));
        try { for (auto &b : f.blocks()) n.children.push_back(block(b)); } catch (std::exception &e) { ONode x; x.kind = "block"; x.name = std::string("<exc:") + typeid(e).name() + ">"; n.children.push_back(x); }
        try { for (auto &s : f.sections()) n.children.push_back(section(s)); } catch (std::exception &e) { ONode x; x.kind = "section"; x.name = std::string("<exc:") + typeid(e).name() + ">"; n.children.push_back(x); }
        return n;
    }
};

// ---- flatten / compare / transform
inline void flatten(const ONode &n, const std::string &path, std::vector<std::string> &out) {
    std::string p = path + "/" + n.kind + "[" + n.name + "]";
    out.push_back(p + " id=" + n.id);
    for (auto &a : n.attrs) out.push_back(p + " ." + a.first + "=" + a.second);
    for (auto &l : n.links) { std::string s; for (auto &t : l.second) s += t + ","; out.push_back(p + " ->" + l.first + "=" + s); }
    for (size_t i = 0; i < n.children.size(); i++) flatten(n.children[i], p + "#" + str(i), out);
}
inline std::vector<std::string> flatten(const ONode &n) { std::vector<std::string> v; flatten(n, "", v); return v; }
// "" if equal, otherwise a description of the first difference
inline std::string tree_diff(const ONode &a, const ONode &b) {
    std::vector<std::string> x = flatten(a), y = flatten(b);
    size_t n = std::min(x.size(), y.size());
    for (size_t i = 0; i < n; i++) if (x[i] != y[i]) { auto cut = [](const std::string &s) { return s.size() > 420 ? s.substr(0, 420) + "..." : s; }; return "first difference at line " + str(i) + ":\n  before: " + cut(x[i]) + "\n  after:  " + cut(y[i]); }
    if (x.size() != y.size()) return "trees differ in size: " + str(x.size()) + " vs " + str(y.size()) + " lines; first extra line: " + (x.size() > n ? "before: " + x[n] : "after: " + y[n]).substr(0, 400);
    return "";
}
inline void collect_ids(const ONode &n, std::vector<std::string> &ids) { if (!n.id.empty() && n.id[0] != '<') ids.push_back(n.id); for (auto &c : n.children) collect_ids(c, ids); }
inline size_t count_nodes(const ONode &n) { size_t k = 1; for (auto &c : n.children) k += count_nodes(c); return k; }
inline const ONode *find_node(const ONode &n, const std::string &id) { if (n.id == id) return &n; for (auto &c : n.children) if (const ONode *r = find_node(c, id)) return r; return nullptr; }
// remove every node whose id is in dead (with its subtree) and every link entry that points to a dead id
inline void remove_ids(ONode &n, const std::set<std::string> &dead) {
    for (auto &l : n.links) { std::vector<std::string> keep; for (auto &t : l.second) if (!dead.count(t)) keep.push_back(t); l.second.swap(keep); }
    std::vector<ONode> keep; for (auto &c : n.children) if (!dead.count(c.id)) { keep.push_back(c); }
    n.children.swap(keep);
    for (auto &c : n.children) remove_ids(c, dead);
}

}  // namespace vm
