// C11 - after close or flush the file on disk is complete and released.
// Fault enumeration: the writing process is SIGKILLed (no exit handler runs) at operation boundaries after flush()/close().
#include "core/core.hpp"
#include "core/graph.hpp"
#include "core/h5util.hpp"
#include <nix/verif_hooks.hpp>
#include <nix/util/dataAccess.hpp>
#include <sys/wait.h>
#include <dirent.h>
#include <fstream>
using namespace vm;
using namespace nix;

namespace {
std::string file_bytes(const std::string &p) { std::ifstream f(p, std::ios::binary); return std::string((std::istreambuf_iterator<char>(f)), std::istreambuf_iterator<char>()); }
void save_lines(const std::string &p, const std::vector<std::string> &l) { std::ofstream o(p); for (auto &x : l) o << x << "\n"; }
std::vector<std::string> load_lines(const std::string &p) { std::vector<std::string> v; std::ifstream f(p); std::string s; while (std::getline(f, s)) v.push_back(s); return v; }
std::string lines_diff(const std::vector<std::string> &x, const std::vector<std::string> &y) {
    size_t n = std::min(x.size(), y.size());
    for (size_t i = 0; i < n; i++) if (x[i] != y[i]) return "first difference at line " + str(i) + ":\n  expected: " + x[i].substr(0, 300) + "\n  observed: " + y[i].substr(0, 300);
    if (x.size() != y.size()) return "trees differ in size: " + str(x.size()) + " vs " + str(y.size()) + " lines";
    return "";
}
long g_leftover = -1;
void sink(const char *kind, const std::string &detail) { if (strcmp(kind, "close.leftover") == 0) g_leftover = atol(detail.c_str()); }
int fds_on(const std::string &path) {
    int n = 0; DIR *d = opendir("/proc/self/fd"); if (!d) return -1; char rp[4096]; std::string real = path; if (realpath(path.c_str(), rp)) real = rp;
    while (dirent *e = readdir(d)) { std::string l = std::string("/proc/self/fd/") + e->d_name; char buf[4096]; ssize_t k = readlink(l.c_str(), buf, sizeof buf - 1); if (k > 0) { buf[k] = 0; if (real == buf) n++; } }
    closedir(d); return n;
}
ssize_t h5_objs() { return H5Fget_obj_count((hid_t)H5F_OBJ_ALL, H5F_OBJ_FILE | H5F_OBJ_GROUP | H5F_OBJ_DATASET | H5F_OBJ_ATTR); }

// handles that stay alive across flush / close
struct Handles {
    std::vector<Block> blocks; std::vector<DataArray> arrays; std::vector<Dimension> dims; std::vector<Tag> tags; std::vector<MultiTag> mtags; std::vector<Feature> feats; std::vector<Section> secs; std::vector<Property> props; std::vector<DataFrame> frames; std::vector<DataView> views; std::vector<Source> sources; std::vector<Group> groups;
    size_t size() const { return blocks.size() + arrays.size() + dims.size() + tags.size() + mtags.size() + feats.size() + secs.size() + props.size() + frames.size() + views.size() + sources.size() + groups.size(); }
    void collect(File &f, Rng &r0, size_t want, bool all = false) {
        struct { Rng &r; bool all; bool chance(double p) { return all || r.chance(p); } } r{r0, all};
        std::function<void(const Section &)> sec = [&](const Section &s) { if (r.chance(0.5)) secs.push_back(s); for (auto &p : s.properties()) if (r.chance(0.5)) props.push_back(p); for (auto &c : s.sections()) sec(c); };
        for (auto &b : f.blocks()) { if (r.chance(0.6)) blocks.push_back(b);
            for (auto &a : b.dataArrays()) { if (r.chance(0.5)) arrays.push_back(a); for (auto &d : a.dimensions()) if (r.chance(0.4)) dims.push_back(d); if (r0.chance(0.3)) { try { NDSize e = a.dataExtent(); if (e.size() && e.nelms() > 0) views.push_back(DataView(a, e, NDSize(e.size(), 0))); } catch (...) {} } }
            for (auto &t : b.tags()) { if (r.chance(0.5)) tags.push_back(t); for (auto &ft : t.features()) if (r.chance(0.5)) feats.push_back(ft); }
            for (auto &t : b.multiTags()) if (r.chance(0.5)) mtags.push_back(t); for (auto &x : b.dataFrames()) if (r.chance(0.5)) frames.push_back(x); for (auto &x : b.sources()) if (r.chance(0.5)) sources.push_back(x); for (auto &x : b.groups()) if (r.chance(0.5)) groups.push_back(x); }
        for (auto &s : f.sections()) sec(s);
        (void)want;
    }
    void clear() { *this = Handles(); }
};

struct Report { std::ofstream out; void viol(const std::string &key, const std::string &detail) { std::string d = detail; for (auto &ch : d) if (ch == '\n') ch = ' '; out << "VIOL\t" << key << "\t" << d << "\n"; out.flush(); } void note(const std::string &k, long v) { out << "NOTE\t" << k << "\t" << v << "\n"; out.flush(); } void ok(long n = 1) { out << "OK\t" << n << "\n"; out.flush(); } };

// every stale handle kind x {getter, mutator} must throw after close()
template <typename F> void must_throw(Report &rp, const std::string &what, F f) { bool threw = false; try { f(); } catch (std::exception &) { threw = true; } catch (...) { threw = true; } if (!threw) rp.viol("C11/stale-handle-usable/" + what, "call on a handle obtained before close() did not throw: " + what); else rp.ok(); }
void stale_calls(Report &rp, Handles &h) {
    for (auto &b : h.blocks) { must_throw(rp, "Block-getter", [&] { (void)b.dataArrayCount(); }); must_throw(rp, "Block-mutator", [&] { b.createDataArray("after-close", "t", DataType::Double, NDSize{1}); }); }
    for (auto &a : h.arrays) { must_throw(rp, "DataArray-getter", [&] { (void)a.dataExtent(); }); must_throw(rp, "DataArray-read", [&] { std::vector<double> v; a.getData(v); }); must_throw(rp, "DataArray-mutator", [&] { a.label("after close"); }); }
    for (auto &d : h.dims) { must_throw(rp, "Dimension-getter", [&] { DimensionType t = d.dimensionType(); if (t == DimensionType::Sample) (void)d.asSampledDimension().samplingInterval(); else if (t == DimensionType::Range) (void)d.asRangeDimension().ticks(); else if (t == DimensionType::Set) (void)d.asSetDimension().labels(); else (void)d.asDataFrameDimension().columnIndex(); }); }
    for (auto &t : h.tags) { must_throw(rp, "Tag-getter", [&] { (void)t.position(); }); must_throw(rp, "Tag-mutator", [&] { t.position({9.0}); }); }
    for (auto &t : h.mtags) must_throw(rp, "MultiTag-getter", [&] { (void)t.positions(); });
    for (auto &x : h.feats) must_throw(rp, "Feature-getter", [&] { (void)x.linkType(); });
    for (auto &s : h.secs) { must_throw(rp, "Section-getter", [&] { (void)s.propertyCount(); }); must_throw(rp, "Section-mutator", [&] { s.createProperty("after-close", Variant(1.0)); }); }
    for (auto &p : h.props) { must_throw(rp, "Property-getter", [&] { (void)p.values(); }); must_throw(rp, "Property-mutator", [&] { p.unit("mV"); }); }
    for (auto &x : h.frames) { must_throw(rp, "DataFrame-getter", [&] { (void)x.rows(); }); must_throw(rp, "DataFrame-mutator", [&] { x.rows(7); }); }
    for (auto &v : h.views) { must_throw(rp, "DataView-read", [&] { std::vector<double> d; v.getData(d); }); }
    for (auto &x : h.sources) must_throw(rp, "Source-getter", [&] { (void)x.sourceCount(); });
    for (auto &x : h.groups) must_throw(rp, "Group-getter", [&] { (void)x.dataArrayCount(); });
}

// ---- the writer process. Protocol: writes snapshot + report files, then a byte on `up` per operation boundary; waits for a byte on `down` before the destructive last step.
void writer(Ctx &c, const std::string &path, bool close_scenario, bool ro_session, int up, int down, int pre, bool keep_handles, bool bulk) {
    Rng &r = c.rng; Report rp; rp.out.open(c.path("report.txt"));
    nix::verif::setSink(sink);
    ssize_t base_objs = h5_objs();
    Graph g(c); g.hostile_pct = 20; g.create(path); g.grow((int)r.range(15, 45));
    // bulk: far more live handles at close() than a random history leaves (every entity, plus a block full of small arrays)
    if (bulk) { Block bb = g.f.createBlock("bulk block", "t"); int n = (int)r.range(70, 180); for (int i = 0; i < n; i++) { DataArray a = bb.createDataArray("bulk " + str(i), "t", DataType::Double, NDSize{2}); if (i % 3 == 0) a.appendSetDimension(); } }
    if (ro_session) { g.close(); g.open(FileMode::ReadOnly); }
    // pre 1: the flushed session is a second session on an existing file; pre 2: an earlier flush succeeded. In both, the changes that the
    // judged flush has to bring to disk are made below the file level only (entity attributes, data, links, entities inside blocks / sections)
    if (!close_scenario && pre) {
        if (pre == 1) { g.close(); g.open(FileMode::ReadWrite); } else { if (!g.f.flush()) rp.viol("C11/flush-returned-false", "first flush() returned false"); }
        g.grow((int)r.range(5, 20), {0, 10, 6, 2, 0});
        try { if (g.f.blockCount()) { Block b = g.f.getBlock(r.u(g.f.blockCount())); g.make_array(b, "late array " + str(r.u(1000))); } } catch (std::exception &) {}
        try { if (g.f.blockCount()) { Block b = g.f.getBlock(r.u(g.f.blockCount())); if (b.dataArrayCount()) b.getDataArray(r.u(b.dataArrayCount())).label("late label " + str(r.u(1000))); } } catch (std::exception &) {}
        try { if (g.f.sectionCount()) g.f.getSection(r.u(g.f.sectionCount())).createProperty("late property " + str(r.u(1000)), Variant((double)r.u(100))); } catch (std::exception &) {}
    }
    Handles h; if (keep_handles) h.collect(g.f, r, 40, bulk); rp.note("handles_alive", (long)h.size()); rp.note(h.size() == 0 ? "sessions_without_live_handles" : "sessions_with_live_handles", 1); if (h.size() > 64) rp.note("sessions_with_more_than_64_handles", 1);
    auto tick = [&] { char b = 1; ssize_t w = write(up, &b, 1); (void)w; };
    if (!close_scenario) {
        bool ok = g.f.flush(); if (!ok) rp.viol("C11/flush-returned-false", "flush() returned false");
        Observer ob; save_lines(c.path("snap.txt"), flatten(ob.file(g.f)));
        tick();   // boundary 0: right after flush
        for (int i = 0; i < 200; i++) {   // read-only activity until killed
            try { Observer o2; (void)o2.file(g.f); for (auto &a : h.arrays) (void)a.dataExtent(); } catch (...) {}
            tick();
        }
        pause();
    } else {
        Observer ob; save_lines(c.path("snap.txt"), flatten(ob.file(g.f)));
        // twin: a second session of this process on the same file, opened later and closed later, with an entity handle of its own kept alive;
        // when both close() calls have returned the file must be released like after a single session
        File twin_f; std::vector<Block> twin_handles; bool twin = bulk == false && r.chance(0.25);
        if (twin) { try { twin_f = File::open(path, ro_session ? FileMode::ReadOnly : FileMode::ReadWrite); for (auto &tb : twin_f.blocks()) twin_handles.push_back(tb); rp.note("twin_sessions", 1); } catch (std::exception &) { twin = false; } }
        g_leftover = -1;
        g.f.close();
        if (twin) { try { twin_f.close(); } catch (std::exception &e) { rp.viol("C11/close/twin-session-close-threw", std::string("close() of the second session on the file threw: ") + e.what()); } }
        rp.note("close_force_closed_ids", g_leftover);
        tick();   // boundary: right after close
        // release monitors inside the writer
        ssize_t objs = h5_objs(); if (objs != base_objs) rp.viol("C11/close/hdf5-ids-left-open", "H5Fget_obj_count(FILE|GROUP|DATASET|ATTR) is " + str((long)objs) + " after close(), " + str((long)base_objs) + " before the file was opened (" + str(h.size()) + " entity handles alive)"); else rp.ok();
        int nfd = fds_on(path); if (nfd != 0) rp.viol("C11/close/file-descriptor-left-open", str(nfd) + " file descriptor(s) on the file remain after close() (" + str(h.size()) + " entity handles alive)"); else rp.ok();
        if (g.f.isOpen()) rp.viol("C11/close/isOpen", "isOpen() is true after close()"); else rp.ok();
        std::string before = file_bytes(path);
        stale_calls(rp, h);
        if (file_bytes(path) != before) rp.viol("C11/close/stale-handle-changed-file", "calls on stale handles changed the bytes of the closed file"); else rp.ok();
        tick();
        // reopen in the same process, read-only and read-write, handles of the closed session still alive
        for (FileMode m : {FileMode::ReadOnly, FileMode::ReadWrite}) { try { File f2 = File::open(path, m); Observer o2; std::string d = lines_diff(load_lines(c.path("snap.txt")), flatten(o2.file(f2))); if (!d.empty()) rp.viol(std::string("C11/close/same-process-reopen-differs/") + (m == FileMode::ReadOnly ? "ReadOnly" : "ReadWrite"), d); else rp.ok(); f2.close(); } catch (std::exception &e) { rp.viol(std::string("C11/close/same-process-reopen-failed/") + (m == FileMode::ReadOnly ? "ReadOnly" : "ReadWrite"), std::string("reopen after close() threw: ") + e.what() + " (" + str(h.size()) + " handles of the closed session alive, session was " + (ro_session ? "ReadOnly" : "ReadWrite") + ")"); } }
        tick();
        char b; ssize_t rd = read(down, &b, 1); (void)rd;   // the supervisor has taken its snapshot
        // HDF5 refuses to truncate a file that is still open in this process
        try { File f3 = File::open(path, FileMode::Overwrite); if (f3.blockCount() != 0) rp.viol("C11/close/overwrite-not-empty", "Overwrite after close() kept content"); else rp.ok(); f3.close(); } catch (std::exception &e) { rp.viol("C11/close/overwrite-reopen-failed", std::string("Overwrite reopen in the same process threw: ") + e.what()); }
        tick();
        pause();
    }
}

void scenario(Ctx &c, bool close_scenario, bool ro_session, int kill_after, int pre, bool keep_handles, bool bulk) {
    std::string path = c.path("c11.nix"); int up[2], down[2]; if (pipe(up) || pipe(down)) { c.check(false, "C11/harness/pipe", "pipe"); return; }
    c.op(std::string(close_scenario ? "writer: history, close" : "writer: history, flush") + (ro_session ? " (ReadOnly session)" : "") + (pre == 1 ? " (second session)" : pre == 2 ? " (after an earlier flush)" : "") + (keep_handles ? (bulk ? ", every handle kept" : ", handles kept") : ", no handle kept") + ", SIGKILL at boundary " + str(kill_after));
    fflush(nullptr); pid_t pid = fork();
    if (pid == 0) { close(up[0]); close(down[1]); try { writer(c, path, close_scenario, ro_session, up[1], down[0], pre, keep_handles, bulk); } catch (std::exception &e) { std::ofstream o(c.path("report.txt"), std::ios::app); o << "VIOL\tC11/harness/writer-exception\t" << e.what() << "\n"; } _exit(0); }
    close(up[1]); close(down[0]);
    auto wait_ticks = [&](int n) { char b; for (int i = 0; i < n; i++) { if (read(up[0], &b, 1) != 1) return false; } return true; };
    bool alive = true;
    if (!close_scenario) {
        alive = wait_ticks(1 + kill_after);
        kill(pid, SIGKILL); int st; waitpid(pid, &st, 0);
        c.count("kills_after_flush"); c.count("kill_boundary:" + str(kill_after));
    } else {
        alive = wait_ticks(3);   // closed, release checks done, same-process reopen done
    }
    if (!alive) { int st; kill(pid, SIGKILL); waitpid(pid, &st, 0); c.check(false, "C11/writer-died", "the writer process ended before reaching the kill point; report: " + (load_lines(c.path("report.txt")).empty() ? std::string("-") : load_lines(c.path("report.txt")).back())); }
    // ---- the supervisor (another process than the writer) reopens in both modes
    std::vector<std::string> want = load_lines(c.path("snap.txt"));
    if (!want.empty()) for (FileMode m : {FileMode::ReadOnly, FileMode::ReadWrite}) {
        const char *mn = m == FileMode::ReadOnly ? "ReadOnly" : "ReadWrite";
        c.op(std::string("supervisor reopen ") + mn + (close_scenario ? " after close" : " after flush+kill"));
        try { File f = File::open(path, m); Observer ob; std::string d = lines_diff(want, flatten(ob.file(f)));
            c.check(d.empty(), std::string("C11/") + (close_scenario ? "close" : "flush-kill") + "/content-differs/" + mn, [&] { return d; }); c.count("nodes_compared", (long)want.size());
            // "can be reopened in any mode" includes going on working: the ReadWrite session allocates new objects, grows and flushes
            if (m == FileMode::ReadWrite && d.empty()) { std::string scn = close_scenario ? "close" : "flush-kill"; c.op("supervisor continues writing " + scn);
                try { Block nb = f.createBlock("written after the reopen", "t"); std::vector<double> v(300); for (size_t i = 0; i < v.size(); i++) v[i] = (double)i; for (int k = 0; k < 3; k++) { DataArray na = nb.createDataArray("late " + str(k), "t", DataType::Double, NDSize{(ndsize_t)v.size()}); na.setData(v); na.appendSetDimension(); } f.createSection("late section", "t").createProperty("late", Variant(1.5));
                    if (f.blockCount() > 1) { Block ob0 = f.getBlock(0); if (ob0.dataArrayCount()) { DataArray x = ob0.getDataArray(0); NDSize e = x.dataExtent(); if (e.size() && e[0] < 4096) { e[0] += 5; x.dataExtent(e); } } }
                    bool fl = f.flush(); c.check(fl, "C11/" + scn + "/continue-writing/flush-false", "flush() returned false in the session that continues after the reopen"); f.close();
                    File f2 = File::open(path, FileMode::ReadOnly); bool ok = f2.hasBlock("written after the reopen") && f2.getBlock("written after the reopen").dataArrayCount() == 3; std::vector<double> back; if (ok) { f2.getBlock("written after the reopen").getDataArray("late 2").getData(back); ok = back == v; } f2.close();
                    c.check(ok, "C11/" + scn + "/continue-writing/lost", "what the continuing session wrote is not in the file"); c.count("continued_sessions"); }
                catch (std::exception &e) { c.check(false, "C11/" + scn + "/continue-writing/failed", std::string("the ReadWrite session that reopened the file could not go on writing: ") + e.what()); }
            } else f.close(); }
        catch (std::exception &e) { c.check(false, std::string("C11/") + (close_scenario ? "close" : "flush-kill") + "/reopen-failed/" + mn, std::string("reopen from another process threw: ") + e.what()); }
    }
    if (close_scenario && alive) { char b = 1; ssize_t w = write(down[1], &b, 1); (void)w; wait_ticks(1); kill(pid, SIGKILL); int st; waitpid(pid, &st, 0); c.count("kills_after_close"); }
    close(up[0]); close(down[1]);
    for (auto &l : load_lines(c.path("report.txt"))) {
        size_t a = l.find('\t'); std::string kind = l.substr(0, a);
        if (kind == "VIOL") { size_t b = l.find('\t', a + 1); c.check(false, l.substr(a + 1, b - a - 1), l.substr(b + 1)); }
        else if (kind == "OK") c.checks += atol(l.substr(a + 1).c_str());
        else if (kind == "NOTE") { size_t b = l.find('\t', a + 1); c.count(l.substr(a + 1, b - a - 1), atol(l.substr(b + 1).c_str())); }
    }
}

void run_case(Ctx &c) {
    bool close_scn = c.index % 2 == 1; bool ro = close_scn && c.rng.chance(0.35);
    int boundary = close_scn ? 0 : (c.quick() ? (int)c.rng.u(6) : (int)(c.index / 2 % 12));
    c.fp((close_scn ? "C" : "F") + str(ro) + str(boundary) + str(c.rng.u(1000)));
    int pre = close_scn ? 0 : (int)c.rng.u(3); bool keep = close_scn ? true : c.rng.chance(0.5); bool bulk = close_scn && c.rng.chance(0.3);
    scenario(c, close_scn, ro, boundary, pre, keep, bulk);
    c.nontrivial = c.checks >= 2;
}
long ncases(const std::string &tier) { return tier == "quick" ? 120 : 3000; }
std::vector<std::string> witnesses() { return {}; }
void run_witness(Ctx &, const std::string &) {}
Reg reg({"C11", ncases, run_case, witnesses, run_witness, 120});
}  // namespace
