// C08 - a rejected operation leaves no trace.
#include "core/core.hpp"
#include "core/graph.hpp"
using namespace vm;
using namespace nix;

namespace {
typedef std::function<void()> Call;
struct World { Graph &g; File other; Block b0, b1, ob; };
// an entry prepares its operands from the current state and returns the call to attempt (empty = not applicable in this state)
struct Entry { std::string name; std::function<Call(World &)> prepare; };

#define NEED(x) if (!(x)) return Call()
std::vector<Entry> catalogue() {
    std::vector<Entry> E;
    auto add = [&](const std::string &n, std::function<Call(World &)> p) { E.push_back({n, p}); };
    // ------------------------------------------------------------------ names and types
    add("File::createBlock/duplicate-name", [](World &w) { std::string n = w.b0.name(); File f = w.g.f; return Call([f, n]() mutable { f.createBlock(n, "t2"); }); });
    add("File::createBlock/empty-name", [](World &w) { File f = w.g.f; return Call([f]() mutable { f.createBlock("", "t"); }); });
    add("File::createBlock/slash-name", [](World &w) { File f = w.g.f; return Call([f]() mutable { f.createBlock("a/b", "t"); }); });
    add("File::createBlock/empty-type", [](World &w) { File f = w.g.f; return Call([f]() mutable { f.createBlock("fresh-block", ""); }); });
    add("File::createSection/duplicate-name", [](World &w) { File f = w.g.f; NEED(f.sectionCount()); std::string n = f.getSection(0).name(); return Call([f, n]() mutable { f.createSection(n, "t2"); }); });
    add("File::createSection/empty-type", [](World &w) { File f = w.g.f; return Call([f]() mutable { f.createSection("fresh-section", ""); }); });
    add("File::createSection/slash-name", [](World &w) { File f = w.g.f; return Call([f]() mutable { f.createSection("x/y", "t"); }); });
    add("Section::createSection/duplicate-name", [](World &w) { Section s; NEED(w.g.anySection(s)); NEED(s.sectionCount()); std::string n = s.getSection(0).name(); return Call([s, n]() mutable { s.createSection(n, "t2"); }); });
    add("Section::createSection/empty-type", [](World &w) { Section s; NEED(w.g.anySection(s)); return Call([s]() mutable { s.createSection("fresh-sub", ""); }); });
    add("Section::createProperty/duplicate-name", [](World &w) { Section s; NEED(w.g.anySection(s)); NEED(s.propertyCount()); std::string n = s.getProperty(0).name(); return Call([s, n]() mutable { s.createProperty(n, Variant(1.0)); }); });
    add("Section::createProperty/empty-name", [](World &w) { Section s; NEED(w.g.anySection(s)); return Call([s]() mutable { s.createProperty("", Variant(1.0)); }); });
    add("Section::createProperty/slash-name", [](World &w) { Section s; NEED(w.g.anySection(s)); return Call([s]() mutable { s.createProperty("a/b", Variant(1.0)); }); });
    add("Section::createProperty/mixed-type-values", [](World &w) { Section s; NEED(w.g.anySection(s)); return Call([s]() mutable { s.createProperty("fresh-mixed", std::vector<Variant>{Variant(1.0), Variant("str"), Variant(2.0)}); }); });
    add("Section::createProperty/no-values", [](World &w) { Section s; NEED(w.g.anySection(s)); return Call([s]() mutable { s.createProperty("fresh-empty", std::vector<Variant>{}); }); });
    // (if this is accepted the property is removed again: reading a Float property asserts, which is C14/C16's business)
    add("Section::createProperty/unsupported-type", [](World &w) { Section s; NEED(w.g.anySection(s)); return Call([s]() mutable { s.createProperty("fresh-float", DataType::Float); s.deleteProperty("fresh-float"); }); });
    add("Block::createSource/duplicate-name", [](World &w) { Block b = w.b0; NEED(b.sourceCount()); std::string n = b.getSource(0).name(); return Call([b, n]() mutable { b.createSource(n, "t2"); }); });
    add("Block::createSource/empty-type", [](World &w) { Block b = w.b0; return Call([b]() mutable { b.createSource("fresh-source", ""); }); });
    add("Source::createSource/duplicate-name", [](World &w) { Source s; NEED(w.g.anySource(w.b0, s)); NEED(s.sourceCount()); std::string n = s.getSource(0).name(); return Call([s, n]() mutable { s.createSource(n, "t2"); }); });
    add("Block::createDataArray/duplicate-name", [](World &w) { Block b = w.b0; NEED(b.dataArrayCount()); std::string n = b.getDataArray(w.g.r.u(b.dataArrayCount())).name(); return Call([b, n]() mutable { b.createDataArray(n, "t2", DataType::Int32, NDSize{7}); }); });
    // duplicates of hostile names (UUID-shaped, '..', whitespace, long): the entity is created during preparation if necessary
    add("Block::createDataArray/duplicate-hostile-name", [](World &w) { Block b = w.b0; std::string n = gen_name(w.g.r, 0, 100); if (!b.hasDataArray(n)) b.createDataArray(n, "t", DataType::Double, NDSize{2}); return Call([b, n]() mutable { b.createDataArray(n, "t2", DataType::Int32, NDSize{5}); }); });
    add("Block::createTag/duplicate-hostile-name", [](World &w) { Block b = w.b0; std::string n = gen_name(w.g.r, 0, 100); if (!b.hasTag(n)) b.createTag(n, "t", {1.0}); return Call([b, n]() mutable { b.createTag(n, "t2", {2.0, 3.0}); }); });
    add("Block::createSource/duplicate-hostile-name", [](World &w) { Block b = w.b0; std::string n = gen_name(w.g.r, 0, 100); if (!b.hasSource(n)) b.createSource(n, "t"); return Call([b, n]() mutable { b.createSource(n, "t2"); }); });
    add("Block::createGroup/duplicate-hostile-name", [](World &w) { Block b = w.b0; std::string n = gen_name(w.g.r, 0, 100); if (!b.hasGroup(n)) b.createGroup(n, "t"); return Call([b, n]() mutable { b.createGroup(n, "t2"); }); });
    add("Block::createDataFrame/duplicate-hostile-name", [](World &w) { Block b = w.b0; std::string n = gen_name(w.g.r, 0, 100); if (!b.hasDataFrame(n)) b.createDataFrame(n, "t", {{"c", "", DataType::Double}}); return Call([b, n]() mutable { b.createDataFrame(n, "t2", {{"d", "", DataType::Int32}}); }); });
    add("Block::createMultiTag/duplicate-hostile-name", [](World &w) { Block b = w.b0; NEED(b.dataArrayCount()); DataArray a = b.getDataArray(0); std::string n = gen_name(w.g.r, 0, 100); if (!b.hasMultiTag(n)) b.createMultiTag(n, "t", a); return Call([b, n, a]() mutable { b.createMultiTag(n, "t2", a); }); });
    add("File::createBlock/duplicate-hostile-name", [](World &w) { File f = w.g.f; std::string n = gen_name(w.g.r, 0, 100); if (!f.hasBlock(n)) f.createBlock(n, "t"); return Call([f, n]() mutable { f.createBlock(n, "t2"); }); });
    add("File::createSection/duplicate-hostile-name", [](World &w) { File f = w.g.f; std::string n = gen_name(w.g.r, 0, 100); if (!f.hasSection(n)) f.createSection(n, "t"); return Call([f, n]() mutable { f.createSection(n, "t2"); }); });
    add("Section::createProperty/duplicate-hostile-name", [](World &w) { Section s; NEED(w.g.anySection(s)); std::string n = gen_name(w.g.r, 0, 100); if (!s.hasProperty(n)) s.createProperty(n, Variant(1.0)); return Call([s, n]() mutable { s.createProperty(n, Variant("other")); }); });
    add("Block::createDataArray/empty-type", [](World &w) { Block b = w.b0; return Call([b]() mutable { b.createDataArray("fresh-array", "", DataType::Double, NDSize{2}); }); });
    add("Block::createDataArray/slash-name", [](World &w) { Block b = w.b0; return Call([b]() mutable { b.createDataArray("a/b", "t", DataType::Double, NDSize{2}); }); });
    add("Block::createDataArray/unsupported-element-type-Nothing", [](World &w) { Block b = w.b0; return Call([b]() mutable { b.createDataArray("fresh-nothing", "t", DataType::Nothing, NDSize{2}); }); });
    add("Block::createDataArray/unsupported-element-type-Char", [](World &w) { Block b = w.b0; return Call([b]() mutable { b.createDataArray("fresh-char", "t", DataType::Char, NDSize{2}); }); });
    add("Block::createDataArray/rank-0-shape", [](World &w) { Block b = w.b0; return Call([b]() mutable { b.createDataArray("fresh-rank0", "t", DataType::Double, NDSize{}); }); });
    add("Block::createDataFrame/duplicate-name", [](World &w) { Block b = w.b0; NEED(b.dataFrameCount()); std::string n = b.getDataFrame(0).name(); return Call([b, n]() mutable { b.createDataFrame(n, "t2", {{"z", "", DataType::Double}}); }); });
    add("Block::createDataFrame/empty-type", [](World &w) { Block b = w.b0; return Call([b]() mutable { b.createDataFrame("fresh-frame", "", {{"z", "", DataType::Double}}); }); });
    add("Block::createDataFrame/no-columns", [](World &w) { Block b = w.b0; return Call([b]() mutable { b.createDataFrame("fresh-nocols", "t", {}); }); });
    add("Block::createDataFrame/duplicate-column", [](World &w) { Block b = w.b0; return Call([b]() mutable { b.createDataFrame("fresh-dupcol", "t", {{"z", "", DataType::Double}, {"z", "", DataType::Int32}}); }); });
    add("Block::createDataFrame/unsupported-column-type", [](World &w) { Block b = w.b0; return Call([b]() mutable { b.createDataFrame("fresh-badcol", "t", {{"z", "", DataType::Float}}); }); });
    add("Block::createTag/duplicate-name", [](World &w) { Block b = w.b0; NEED(b.tagCount()); std::string n = b.getTag(0).name(); return Call([b, n]() mutable { b.createTag(n, "t2", {9.0}); }); });
    add("Block::createTag/empty-type", [](World &w) { Block b = w.b0; return Call([b]() mutable { b.createTag("fresh-tag", "", {1.0}); }); });
    add("Block::createGroup/duplicate-name", [](World &w) { Block b = w.b0; NEED(b.groupCount()); std::string n = b.getGroup(0).name(); return Call([b, n]() mutable { b.createGroup(n, "t2"); }); });
    add("Block::createMultiTag/duplicate-name", [](World &w) { Block b = w.b0; NEED(b.multiTagCount() && b.dataArrayCount()); std::string n = b.getMultiTag(0).name(); DataArray a = b.getDataArray(0); return Call([b, n, a]() mutable { b.createMultiTag(n, "t2", a); }); });
    add("Block::createMultiTag/empty-type", [](World &w) { Block b = w.b0; NEED(b.dataArrayCount()); DataArray a = b.getDataArray(0); return Call([b, a]() mutable { b.createMultiTag("fresh-mtag", "", a); }); });
    // ------------------------------------------------------------------ entities of another block / file, uninitialised, deleted
    add("Block::createMultiTag/positions-of-other-block", [](World &w) { Block b = w.b0; NEED(w.b1.dataArrayCount()); DataArray a = w.b1.getDataArray(0); NEED(!b.hasDataArray(a.name())); return Call([b, a]() mutable { b.createMultiTag("fresh-mtag-ob", "t", a); }); });
    add("Block::createMultiTag/positions-of-other-file", [](World &w) { Block b = w.b0; DataArray a = w.ob.getDataArray(0); return Call([b, a]() mutable { b.createMultiTag("fresh-mtag-of", "t", a); }); });
    add("Block::createMultiTag/positions-uninitialised", [](World &w) { Block b = w.b0; return Call([b]() mutable { b.createMultiTag("fresh-mtag-un", "t", DataArray()); }); });
    add("Tag::addReference/array-of-other-block", [](World &w) { Tag t; NEED(w.g.anyTag(w.b0, t)); NEED(w.b1.dataArrayCount()); DataArray a = w.b1.getDataArray(0); NEED(!w.b0.hasDataArray(a.name())); return Call([t, a]() mutable { t.addReference(a); }); });
    add("Tag::addReference/array-of-other-file", [](World &w) { Tag t; NEED(w.g.anyTag(w.b0, t)); DataArray a = w.ob.getDataArray(0); return Call([t, a]() mutable { t.addReference(a); }); });
    add("Tag::addReference/unknown-id", [](World &w) { Tag t; NEED(w.g.anyTag(w.b0, t)); std::string id = uuid_like(w.g.r); return Call([t, id]() mutable { t.addReference(id); }); });
    add("Tag::addReference/uninitialised", [](World &w) { Tag t; NEED(w.g.anyTag(w.b0, t)); return Call([t]() mutable { t.addReference(DataArray()); }); });
    add("Tag::references/vector-with-foreign-array", [](World &w) { Tag t; NEED(w.g.anyTag(w.b0, t)); NEED(t.referenceCount()); std::vector<DataArray> v = t.references(); v.push_back(w.ob.getDataArray(0)); return Call([t, v]() mutable { t.references(v); }); });
    add("MultiTag::references/vector-with-foreign-array", [](World &w) { MultiTag t; NEED(w.g.anyMTag(w.b0, t)); NEED(t.referenceCount()); std::vector<DataArray> v = t.references(); v.push_back(w.ob.getDataArray(0)); return Call([t, v]() mutable { t.references(v); }); });
    add("Tag::createFeature/array-of-other-block", [](World &w) { Tag t; NEED(w.g.anyTag(w.b0, t)); NEED(w.b1.dataArrayCount()); DataArray a = w.b1.getDataArray(0); NEED(!w.b0.hasDataArray(a.name())); return Call([t, a]() mutable { t.createFeature(a, LinkType::Tagged); }); });
    add("MultiTag::createFeature/array-of-other-file", [](World &w) { MultiTag t; NEED(w.g.anyMTag(w.b0, t)); DataArray a = w.ob.getDataArray(0); return Call([t, a]() mutable { t.createFeature(a, LinkType::Indexed); }); });
    add("Feature::data/array-of-other-file", [](World &w) { Tag t; NEED(w.g.anyTag(w.b0, t)); NEED(t.featureCount()); Feature ft = t.getFeature(0); DataArray a = w.ob.getDataArray(0); return Call([ft, a]() mutable { ft.data(a); }); });
    add("Feature::data/unknown-id", [](World &w) { Tag t; NEED(w.g.anyTag(w.b0, t)); NEED(t.featureCount()); Feature ft = t.getFeature(0); std::string id = uuid_like(w.g.r); return Call([ft, id]() mutable { ft.data(id); }); });
    add("Feature::data/empty-string", [](World &w) { Tag t; NEED(w.g.anyTag(w.b0, t)); NEED(t.featureCount()); Feature ft = t.getFeature(0); return Call([ft]() mutable { ft.data(""); }); });
    add("MultiTag::positions/array-of-other-block", [](World &w) { MultiTag t; NEED(w.g.anyMTag(w.b0, t)); NEED(w.b1.dataArrayCount()); DataArray a = w.b1.getDataArray(0); NEED(!w.b0.hasDataArray(a.name())); return Call([t, a]() mutable { t.positions(a); }); });
    add("MultiTag::positions/unknown-id", [](World &w) { MultiTag t; NEED(w.g.anyMTag(w.b0, t)); std::string id = uuid_like(w.g.r); return Call([t, id]() mutable { t.positions(id); }); });
    add("MultiTag::extents/unknown-id", [](World &w) { MultiTag t; NEED(w.g.anyMTag(w.b0, t)); std::string id = uuid_like(w.g.r); return Call([t, id]() mutable { t.extents(id); }); });
    add("MultiTag::extents/mismatching-shape", [](World &w) { MultiTag t; NEED(w.g.anyMTag(w.b0, t)); DataArray p = t.positions(); NEED(p); NDSize e = p.dataExtent(); e[0] += 1; DataArray x = w.b0.createDataArray("mismatch-" + str(w.g.serial++), "t", DataType::Double, e); return Call([t, x]() mutable { t.extents(x); }); });
    add("MultiTag::positions/shape-mismatching-the-extents", [](World &w) { MultiTag t; NEED(w.g.anyMTag(w.b0, t)); DataArray ex = t.extents(); NEED(ex); NDSize e = ex.dataExtent(); e[0] += 2; DataArray x = w.b0.createDataArray("pmismatch-" + str(w.g.serial++), "t", DataType::Double, e); int how = (int)w.g.r.u(3); return Call([t, x, how]() mutable { if (how == 0) t.positions(x); else if (how == 1) t.positions(x.name()); else t.positions(x.id()); }); });
    add("MultiTag::positions/unknown-id", [](World &w) { MultiTag t; NEED(w.g.anyMTag(w.b0, t)); std::string id = uuid_like(w.g.r); return Call([t, id]() mutable { t.positions(id); }); });
    add("MultiTag::extents/array-of-other-file", [](World &w) { MultiTag t; NEED(w.g.anyMTag(w.b0, t)); DataArray a = w.ob.getDataArray(0); return Call([t, a]() mutable { t.extents(a); }); });
    add("Group::addDataArray/array-of-other-block", [](World &w) { Group gr; NEED(w.g.anyGroup(w.b0, gr)); NEED(w.b1.dataArrayCount()); DataArray a = w.b1.getDataArray(0); NEED(!w.b0.hasDataArray(a.name())); return Call([gr, a]() mutable { gr.addDataArray(a); }); });
    add("Group::addTag/unknown-id", [](World &w) { Group gr; NEED(w.g.anyGroup(w.b0, gr)); std::string id = uuid_like(w.g.r); return Call([gr, id]() mutable { gr.addTag(id); }); });
    add("Group::dataArrays/vector-with-foreign-array", [](World &w) { Group gr; NEED(w.g.anyGroup(w.b0, gr)); NEED(gr.dataArrayCount()); std::vector<DataArray> v = gr.dataArrays(util::AcceptAll<DataArray>()); v.push_back(w.ob.getDataArray(0)); return Call([gr, v]() mutable { gr.dataArrays(v); }); });
    add("DataArray::addSource/source-of-other-block", [](World &w) { DataArray a; NEED(w.g.anyArray(w.b0, a)); NEED(w.b1.sourceCount()); Source s = w.b1.getSource(0); NEED(!w.b0.hasSource(s.name())); return Call([a, s]() mutable { a.addSource(s); }); });
    add("DataArray::addSource/unknown-id", [](World &w) { DataArray a; NEED(w.g.anyArray(w.b0, a)); std::string id = uuid_like(w.g.r); return Call([a, id]() mutable { a.addSource(id); }); });
    add("Tag::sources/vector-with-foreign-source", [](World &w) { Tag t; NEED(w.g.anyTag(w.b0, t)); NEED(t.sourceCount()); std::vector<Source> v = t.sources(); v.push_back(w.ob.createSource("fs" + str(w.g.serial++), "t")); return Call([t, v]() mutable { t.sources(v); }); });
    add("metadata/unknown-id", [](World &w) { DataArray a; NEED(w.g.anyArray(w.b0, a)); std::string id = uuid_like(w.g.r); return Call([a, id]() mutable { a.metadata(id); }); });
    add("metadata/section-of-other-file", [](World &w) { Block b = w.b0; Section s = w.other.getSection(0); return Call([b, s]() mutable { b.metadata(s); }); });
    add("metadata/empty-id", [](World &w) { Tag t; NEED(w.g.anyTag(w.b0, t)); return Call([t]() mutable { t.metadata(std::string()); }); });
    add("Section::link/unknown-id", [](World &w) { Section s; NEED(w.g.anySection(s)); std::string id = uuid_like(w.g.r); return Call([s, id]() mutable { s.link(id); }); });
    add("Section::link/section-of-other-file", [](World &w) { Section s; NEED(w.g.anySection(s)); Section o = w.other.getSection(0); return Call([s, o]() mutable { s.link(o); }); });
    // ------------------------------------------------------------------ shapes, element types, indices
    add("DataArray::appendData/shape-mismatch", [](World &w) { DataArray a; NEED(w.g.anyArray(w.b0, a)); NEED(a.dataType() == DataType::Double); NDSize e = a.dataExtent(); NEED(e.size() >= 2); NDSize c = e; c[0] = 1; c[1] += 1; auto buf = std::make_shared<std::vector<double>>(c.nelms(), 1.0); return Call([a, c, buf]() mutable { a.appendData(DataType::Double, buf->data(), c, 0); }); });
    add("DataArray::appendData/refactored-slice-same-size", [](World &w) { DataArray a = w.b0.createDataArray("r3-" + str(w.g.serial++), "t", DataType::Double, NDSize{2, 4, 3}); NDSize e = a.dataExtent(); NDSize c = e; c[0] = 1; std::swap(c[1], c[2]); auto buf = std::make_shared<std::vector<double>>(c.nelms(), 1.0); return Call([a, c, buf]() mutable { a.appendData(DataType::Double, buf->data(), c, 0); }); });
    add("DataArray::appendData/same-count-other-shape-2d", [](World &w) { DataArray a = w.b0.createDataArray("r2-" + str(w.g.serial++), "t", DataType::Double, NDSize{2, 6}); NDSize c{3, 4}; auto buf = std::make_shared<std::vector<double>>(12, 1.0); return Call([a, c, buf]() mutable { a.appendData(DataType::Double, buf->data(), c, 0); }); });
    add("DataArray::appendData/rank-mismatch", [](World &w) { DataArray a; NEED(w.g.anyArray(w.b0, a)); NEED(a.dataType() == DataType::Double); NDSize e = a.dataExtent(); NDSize c(e.size() + 1, 1); auto buf = std::make_shared<std::vector<double>>(1, 1.0); return Call([a, c, buf]() mutable { a.appendData(DataType::Double, buf->data(), c, 0); }); });
    add("DataArray::appendData/axis-out-of-range", [](World &w) { DataArray a; NEED(w.g.anyArray(w.b0, a)); NEED(a.dataType() == DataType::Double); NDSize e = a.dataExtent(); auto buf = std::make_shared<std::vector<double>>(e.nelms() + 1, 1.0); size_t ax = e.size(); return Call([a, e, buf, ax]() mutable { a.appendData(DataType::Double, buf->data(), e, ax); }); });
    add("DataArray::setData/beyond-extent", [](World &w) { DataArray a; NEED(w.g.anyArray(w.b0, a)); NEED(a.dataType() == DataType::Double); NDSize e = a.dataExtent(); NDSize off(e.size(), 0); off[0] = e[0]; NDSize c(e.size(), 1); auto buf = std::make_shared<std::vector<double>>(1, 3.0); return Call([a, c, off, buf]() mutable { a.setData(DataType::Double, buf->data(), c, off); }); });
    add("DataArray::setData/string-into-numeric", [](World &w) { DataArray a; NEED(w.g.anyArray(w.b0, a)); NEED(a.dataType() == DataType::Double || a.dataType() == DataType::Int32); NDSize e = a.dataExtent(); NEED(e.nelms() > 0); auto buf = std::make_shared<std::vector<std::string>>(1, "text"); NDSize c(e.size(), 1), off(e.size(), 0); return Call([a, c, off, buf]() mutable { a.setData(DataType::String, buf->data(), c, off); }); });
    add("DataArray::dataExtent/rank-mismatch", [](World &w) { DataArray a; NEED(w.g.anyArray(w.b0, a)); NDSize e = a.dataExtent(); NDSize n(e.size() + 1, 2); return Call([a, n]() mutable { a.dataExtent(n); }); });
    add("DataArray::label/empty", [](World &w) { DataArray a; NEED(w.g.anyArray(w.b0, a)); return Call([a]() mutable { a.label(""); }); });
    add("DataArray::unit/empty", [](World &w) { DataArray a; NEED(w.g.anyArray(w.b0, a)); return Call([a]() mutable { a.unit(""); }); });
    add("DataArray::getDimension/index-out-of-range", [](World &w) { DataArray a; NEED(w.g.anyArray(w.b0, a)); ndsize_t n = a.dimensionCount(); return Call([a, n]() mutable { a.getDimension(n + 1); }); });
    add("Block::getDataArray/index-out-of-range", [](World &w) { Block b = w.b0; ndsize_t n = b.dataArrayCount(); return Call([b, n]() mutable { b.getDataArray(n); }); });
    add("Tag::getReference/index-out-of-range", [](World &w) { Tag t; NEED(w.g.anyTag(w.b0, t)); size_t n = t.referenceCount(); return Call([t, n]() mutable { t.getReference(n); }); });
    add("DataFrame::writeRow/too-many-values", [](World &w) { DataFrame df; NEED(w.g.anyFrame(w.b0, df)); NEED(df.rows()); std::vector<Variant> row; for (auto &cd : df.columns()) row.push_back(w.g.gen_values(cd.dtype, 1)[0]); row.push_back(Variant(1.0)); return Call([df, row]() mutable { df.writeRow(0, row); }); });
    add("DataFrame::writeRow/wrong-cell-type", [](World &w) { DataFrame df; NEED(w.g.anyFrame(w.b0, df)); NEED(df.rows()); std::vector<Variant> row; auto cols = df.columns(); for (size_t i = 0; i < cols.size(); i++) row.push_back(i + 1 == cols.size() ? (cols[i].dtype == DataType::String ? Variant(1.0) : Variant("wrong")) : w.g.gen_values(cols[i].dtype, 1)[0]); return Call([df, row]() mutable { df.writeRow(0, row); }); });
    add("DataFrame::writeRow/row-out-of-range", [](World &w) { DataFrame df; NEED(w.g.anyFrame(w.b0, df)); std::vector<Variant> row; for (auto &cd : df.columns()) row.push_back(w.g.gen_values(cd.dtype, 1)[0]); ndsize_t n = df.rows(); return Call([df, row, n]() mutable { df.writeRow(n + 2, row); }); });
    add("DataFrame::writeCell/column-out-of-range", [](World &w) { DataFrame df; NEED(w.g.anyFrame(w.b0, df)); NEED(df.rows()); unsigned nc = (unsigned)df.columns().size(); return Call([df, nc]() mutable { df.writeCell(0, nc + 1, Variant(1.0)); }); });
    add("DataFrame::writeColumn/wrong-type", [](World &w) { DataFrame df; NEED(w.g.anyFrame(w.b0, df)); NEED(df.rows()); auto cols = df.columns(); NEED(cols[0].dtype != DataType::Double && cols[0].dtype != DataType::String); std::vector<std::string> v(df.rows(), "s"); return Call([df, v]() mutable { df.writeColumn(0u, v); }); });
    add("DataFrame::writeColumn/beyond-rows", [](World &w) { DataFrame df; NEED(w.g.anyFrame(w.b0, df)); auto cols = df.columns(); NEED(cols[0].dtype == DataType::Double); std::vector<double> v(df.rows() + 3, 1.0); return Call([df, v]() mutable { df.writeColumn(0u, v, 1); }); });
    add("Property::values/wrong-type", [](World &w) { Section s; NEED(w.g.anySection(s)); NEED(s.propertyCount()); Property p = s.getProperty(w.g.r.u(s.propertyCount())); std::vector<Variant> v = {p.dataType() == DataType::String ? Variant(1.0) : Variant("wrong"), p.dataType() == DataType::String ? Variant(2.0) : Variant("w2"), p.dataType() == DataType::String ? Variant(2.0) : Variant("w3")}; return Call([p, v]() mutable { p.values(v); }); });
    add("Property::values/mixed-types-first-matches", [](World &w) { Section s; NEED(w.g.anySection(s)); NEED(s.propertyCount()); Property p = s.getProperty(w.g.r.u(s.propertyCount())); std::vector<Variant> v = w.g.gen_values(p.dataType(), 4); v[2] = p.dataType() == DataType::String ? Variant(1.0) : Variant("wrong"); return Call([p, v]() mutable { p.values(v); }); });
    // ------------------------------------------------------------------ dimensions: ticks, intervals, units
    add("DataArray::appendRangeDimension/unsorted-ticks", [](World &w) { DataArray a; NEED(w.g.anyArray(w.b0, a)); return Call([a]() mutable { a.appendRangeDimension({3.0, 1.0, 2.0}); }); });
    add("DataArray::appendRangeDimension/empty-ticks", [](World &w) { DataArray a; NEED(w.g.anyArray(w.b0, a)); return Call([a]() mutable { a.appendRangeDimension({}); }); });
    add("DataArray::appendRangeDimension/non-SI-unit", [](World &w) { DataArray a; NEED(w.g.anyArray(w.b0, a)); return Call([a]() mutable { a.appendRangeDimension({1.0, 2.0}, "lbl", "furlong"); }); });
    add("DataArray::appendSampledDimension/non-positive-interval", [](World &w) { DataArray a; NEED(w.g.anyArray(w.b0, a)); double iv = w.g.r.chance(0.5) ? 0.0 : -1.5; return Call([a, iv]() mutable { a.appendSampledDimension(iv); }); });
    add("DataArray::appendSampledDimension/non-SI-unit", [](World &w) { DataArray a; NEED(w.g.anyArray(w.b0, a)); return Call([a]() mutable { a.appendSampledDimension(1.0, "lbl", "parsec"); }); });
    add("DataArray::appendAliasRangeDimension/not-allowed", [](World &w) { DataArray a; NEED(w.g.anyArray(w.b0, a)); NEED(a.dataExtent().size() > 1 || a.dimensionCount() > 0 || a.dataType() == DataType::String || a.dataType() == DataType::Bool); return Call([a]() mutable { a.appendAliasRangeDimension(); }); });
    add("DataArray::appendDataFrameDimension/frame-of-other-file", [](World &w) { DataArray a; NEED(w.g.anyArray(w.b0, a)); DataFrame df = w.ob.getDataFrame(0); return Call([a, df]() mutable { a.appendDataFrameDimension(df); }); });
    add("DataArray::appendDataFrameDimension/column-out-of-range", [](World &w) { DataArray a; DataFrame df; NEED(w.g.anyArray(w.b0, a) && w.g.anyFrame(w.b0, df)); unsigned nc = (unsigned)df.columns().size(); return Call([a, df, nc]() mutable { a.appendDataFrameDimension(df, nc + 1); }); });
    add("DataArray::appendDataFrameDimension/unknown-column-name", [](World &w) { DataArray a; DataFrame df; NEED(w.g.anyArray(w.b0, a) && w.g.anyFrame(w.b0, df)); return Call([a, df]() mutable { a.appendDataFrameDimension(df, "no-such-column"); }); });
    add("SampledDimension::samplingInterval/non-positive", [](World &w) { Block b = w.b0; for (auto &a : b.dataArrays()) for (auto &d : a.dimensions()) if (d.dimensionType() == DimensionType::Sample) { SampledDimension s = d.asSampledDimension(); return Call([s]() mutable { s.samplingInterval(-2.0); }); } return Call(); });
    // units that are SI only after blanks are removed / "mu" is rewritten, and blank-only units: whoever rejects them must do so before creating anything
    add("DataArray::appendSampledDimension/unit-SI-only-after-sanitising", [](World &w) { DataArray a; NEED(w.g.anyArray(w.b0, a)); static const char *us[] = {" ms", "m V", "kHz ", "mus", " ", "m s", "mV / s"}; std::string u = w.g.r.pick(us); return Call([a, u]() mutable { a.appendSampledDimension(1.0, "lbl", u); }); });
    add("DataArray::appendRangeDimension/unit-SI-only-after-sanitising", [](World &w) { DataArray a; NEED(w.g.anyArray(w.b0, a)); static const char *us[] = {" ms", "m V", "kHz ", "mus", " ", "m s", "mV / s"}; std::string u = w.g.r.pick(us); return Call([a, u]() mutable { a.appendRangeDimension({1.0, 2.0}, "lbl", u); }); });
    add("Dimension::unit/unit-SI-only-after-sanitising", [](World &w) { Block b = w.b0; static const char *us[] = {" ms", "m V", "kHz ", "mus", " ", "m s"}; std::string u = w.g.r.pick(us); for (auto &a : b.dataArrays()) for (auto &d : a.dimensions()) { if (d.dimensionType() == DimensionType::Sample) { SampledDimension s2 = d.asSampledDimension(); return Call([s2, u]() mutable { s2.unit(u); }); } if (d.dimensionType() == DimensionType::Range) { RangeDimension s2 = d.asRangeDimension(); return Call([s2, u]() mutable { s2.unit(u); }); } } return Call(); });
    add("SampledDimension::unit/non-SI", [](World &w) { Block b = w.b0; for (auto &a : b.dataArrays()) for (auto &d : a.dimensions()) if (d.dimensionType() == DimensionType::Sample) { SampledDimension s = d.asSampledDimension(); return Call([s]() mutable { s.unit("cubits"); }); } return Call(); });
    add("RangeDimension::ticks/unsorted", [](World &w) { Block b = w.b0; for (auto &a : b.dataArrays()) for (auto &d : a.dimensions()) if (d.dimensionType() == DimensionType::Range) { RangeDimension s = d.asRangeDimension(); return Call([s]() mutable { s.ticks({5.0, 4.0, 6.0}); }); } return Call(); });
    add("RangeDimension::unit/non-SI", [](World &w) { Block b = w.b0; for (auto &a : b.dataArrays()) for (auto &d : a.dimensions()) if (d.dimensionType() == DimensionType::Range) { RangeDimension s = d.asRangeDimension(); return Call([s]() mutable { s.unit("stone"); }); } return Call(); });
    add("Dimension::label/empty", [](World &w) { Block b = w.b0; for (auto &a : b.dataArrays()) for (auto &d : a.dimensions()) if (d.dimensionType() == DimensionType::Set) { SetDimension s = d.asSetDimension(); return Call([s]() mutable { s.label(""); }); } return Call(); });
    add("Tag::units/non-SI", [](World &w) { Tag t; NEED(w.g.anyTag(w.b0, t)); return Call([t]() mutable { t.units({"ms", "bananas"}); }); });
    add("MultiTag::units/non-SI", [](World &w) { MultiTag t; NEED(w.g.anyMTag(w.b0, t)); return Call([t]() mutable { t.units({"apples"}); }); });
    add("DataArray::unit/non-SI-with-alias-dimension", [](World &w) { Block b = w.b0; for (auto &a : b.dataArrays()) if (a.dimensionCount() == 1 && a.getDimension(1).dimensionType() == DimensionType::Range && a.getDimension(1).asRangeDimension().alias()) { DataArray x = a; return Call([x]() mutable { x.unit("smoots"); }); } return Call(); });
    add("NamedEntity::type/empty", [](World &w) { Block b = w.b0; return Call([b]() mutable { b.type(""); }); });
    add("Section::type/empty", [](World &w) { Section s; NEED(w.g.anySection(s)); return Call([s]() mutable { s.type(""); }); });
    return E;
}
#undef NEED

void run_case(Ctx &c) {
    Rng &r = c.rng; Graph g(c); g.hostile_pct = 15; g.create(c.path("c08.nix"));
    // a second file that supplies foreign entities
    File other = File::open(c.path("other.nix"), FileMode::Overwrite); Block ob = other.createBlock("ob", "t"); ob.createDataArray("foreign", "t", DataType::Double, NDSize{3}); ob.createDataFrame("fframe", "t", {{"c", "", DataType::Double}}); other.createSection("fsec", "t"); ob.createSource("fsrc", "t");
    g.grow(8, {10, 0, 0, 0, 0}); while (g.f.blockCount() < 2) g.f.createBlock("blk" + str(g.serial++), "t");
    g.grow((int)r.range(40, 70), {10, 4, 9, 1, 1});
    while (g.f.blockCount() < 2) g.f.createBlock("blk" + str(g.serial++), "t");
    World w{g, other, g.f.getBlock(0), g.f.getBlock(1), ob};
    // make sure there is something to lose in block 0: links, extents, values
    try { Block b = w.b0; if (!b.dataArrayCount()) g.make_array(b, "arr0"); if (!b.tagCount()) b.createTag("tag0", "t", {1.0}); Tag t = b.getTag(0); if (!t.referenceCount()) t.addReference(b.getDataArray(0)); if (!t.featureCount()) t.createFeature(b.getDataArray(0), LinkType::Untagged);
        if (!b.multiTagCount()) b.createMultiTag("mtag0", "t", b.getDataArray(0)); MultiTag m = b.getMultiTag(0); if (!m.extents() && m.positions()) { DataArray e = b.createDataArray("ext0-" + str(g.serial++), "t", DataType::Double, m.positions().dataExtent()); m.extents(e); }
        if (!g.f.sectionCount()) g.f.createSection("sec0", "t"); Section s = g.f.getSection(0); if (!s.propertyCount()) s.createProperty("p0", std::vector<Variant>{Variant(1.0), Variant(2.0), Variant(3.0)}); if (!s.sectionCount()) s.createSection("sub0", "t");
        for (auto &a : b.dataArrays()) if (!a.metadata() && r.chance(0.7)) a.metadata(s); if (!b.metadata()) b.metadata(s); for (auto &tg : b.tags()) if (!tg.metadata()) tg.metadata(s);
        if (g.f.sectionCount() > 1 && !s.link()) s.link(g.f.getSection(1));
        if (!b.sourceCount()) b.createSource("src0", "t"); for (auto &tg : b.tags()) if (!tg.sourceCount()) tg.addSource(b.getSource(0));
        if (!b.groupCount()) b.createGroup("grp0", "t"); Group gr = b.getGroup(0); if (!gr.dataArrayCount()) gr.addDataArray(b.getDataArray(0)); if (!b.dataFrameCount()) g.make_frame(b, "frame0"); for (auto &df : b.dataFrames()) if (!df.rows()) df.rows(2);
        if (!m.referenceCount()) m.addReference(b.getDataArray(0));
    } catch (std::exception &e) { c.note(std::string("prepare:") + e.what()); }
    std::vector<Entry> cat = catalogue();
    int n = c.quick() ? 30 : 60;
    for (int i = 0; i < n; i++) {
        Entry &e = cat[r.u(cat.size())];
        Call call; try { call = e.prepare(w); } catch (std::exception &ex) { c.count("prepare_exception"); continue; }
        if (!call) { c.count("not_applicable"); continue; }
        Observer ob1; ONode t0 = ob1.file(g.f);
        c.op("attempt " + e.name);
        bool threw = false; std::string exc;
        try { call(); } catch (std::exception &ex) { threw = true; exc = std::string(typeid(ex).name()) + ": " + ex.what(); } catch (...) { threw = true; exc = "non-std exception"; }
        if (!threw) { c.count("accepted:" + e.name); c.count("accepted_calls"); continue; }
        Observer ob2; ONode t1 = ob2.file(g.f);
        std::string d = tree_diff(t0, t1);
        c.check(d.empty(), "C08/trace/" + e.name, [&] { return "rejected call (" + exc.substr(0, 160) + ") left a trace:\n" + d; });
        c.count("rejected_calls"); c.fp(e.name);
        // state changed by a rejected call: continue from the changed state (each trace is reported once per key)
    }
    c.counters["catalogue_size"] = (long)cat.size();
    c.nontrivial = c.counters["rejected_calls"] >= 5;
    g.close(); other.close();
}
long ncases(const std::string &tier) { return tier == "quick" ? 160 : 4000; }
std::vector<std::string> witnesses() { return {}; }
void run_witness(Ctx &, const std::string &) {}
Reg reg({"C08", ncases, run_case, witnesses, run_witness, 180});
}  // namespace
