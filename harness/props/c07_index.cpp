// C07 - position-to-index conversion obeys the documented matching rules.
#include "core/core.hpp"
#include "core/axis.hpp"
using namespace vm;
using namespace nix;

namespace {
const PositionMatch RULES[] = {PositionMatch::Less, PositionMatch::LessOrEqual, PositionMatch::GreaterOrEqual, PositionMatch::Greater, PositionMatch::Equal};

struct Dim {
    Axis ax; Dimension d; SampledDimension sd; RangeDimension rd; SetDimension st; DataFrameDimension fd;
    boost::optional<ndsize_t> indexOf(double p, PositionMatch m) const {
        switch (ax.kind) { case Axis::Sampled: return sd.indexOf(p, m); case Axis::Range: return rd.indexOf(p, m); case Axis::Set: return st.indexOf(p, m); default: return fd.indexOf(p, m); }
    }
    boost::optional<std::pair<ndsize_t, ndsize_t>> pairOf(double s, double e, RangeMatch m) const {
        switch (ax.kind) { case Axis::Sampled: return sd.indexOf(s, e, m); case Axis::Range: return rd.indexOf(s, e, {}, m); case Axis::Set: return st.indexOf(s, e, m); default: return fd.indexOf(s, e, m); }
    }
    std::vector<boost::optional<std::pair<ndsize_t, ndsize_t>>> pairsOf(const std::vector<double> &s, const std::vector<double> &e, RangeMatch m) const {
        switch (ax.kind) { case Axis::Sampled: return sd.indexOf(s, e, m); case Axis::Range: return rd.indexOf(s, e, m); case Axis::Set: return st.indexOf(s, e, m); default: return fd.indexOf(s, e, m); }
    }
    boost::optional<ndsize_t> utilIndex(double p, const std::string &unit, PositionMatch m) const {
        switch (ax.kind) { case Axis::Sampled: return util::positionToIndex(p, unit, m, sd); case Axis::Range: return util::positionToIndex(p, unit, m, rd);
        case Axis::Set: return util::positionToIndex(p, m, st); default: return util::positionToIndex(p, m, fd); }
    }
    std::vector<boost::optional<std::pair<ndsize_t, ndsize_t>>> utilPairs(const std::vector<double> &s, const std::vector<double> &e, const std::vector<std::string> &u, RangeMatch m) const {
        switch (ax.kind) { case Axis::Sampled: return util::positionToIndex(s, e, u, m, sd); case Axis::Range: return util::positionToIndex(s, e, u, m, rd);
        case Axis::Set: return util::positionToIndex(s, e, m, st); default: return util::positionToIndex(s, e, m, fd); }
    }
};

struct PosC { double p; const char *cls; };

// positions around sample index i (bounded axes: i may be the last)
void positions_around(const Axis &a, long i, Rng &r, std::vector<PosC> &out) {
    long n = a.bound(); double xi = a.x(i);
    out.push_back({xi, "on"});
    out.push_back({std::nextafter(xi, INFINITY), "ulp+"});
    out.push_back({std::nextafter(xi, -INFINITY), "ulp-"});
    if (i + 1 < n) { double xn = a.x(i + 1); double mid = xi + (xn - xi) * (0.1 + 0.8 * r.real()); if (mid > xi && mid < xn) out.push_back({mid, "mid"}); }
}
}  // namespace

static std::string pos_str(double p) { return dstr(p) + "(" + hexd(p) + ")"; }

static void check_axis(Ctx &c, const Dim &D, const std::vector<long> &sample_idx, bool with_units) {
    const Axis &a = D.ax; Rng &r = c.rng; long n = a.bound();
    std::string kind = a.kname();
    std::vector<PosC> ps;
    for (long i : sample_idx) {
        if (i >= n) continue;
        if (a.kind == Axis::Sampled && !strictly_ascending_near(a, i)) { c.count("skipped:not-strictly-ascending"); continue; }
        positions_around(a, i, r, ps);
    }
    // outside the axis
    double x0 = a.x(0);
    ps.push_back({x0 - 1.0 - r.real() * 10, "below"}); ps.push_back({std::nextafter(x0, -INFINITY), "ulp-below-first"});
    ps.push_back({x0 - (double)r.range(1, 3), "below-whole-steps"}); if (a.kind == Axis::Sampled) ps.push_back({a.x(0) - a.dt * (double)r.range(1, 3), "below-whole-steps"});   // whole units / sampling steps before the first coordinate
    if (n < Axis::UNBOUNDED) { double xl = a.x(n - 1); ps.push_back({xl + 0.5 + r.real() * 10, "above"}); ps.push_back({std::nextafter(xl, INFINITY), "ulp-above-last"}); }
    ps.push_back({-0.0, "negzero"});
    c.count("positions", (long)ps.size());
    // --- single position conversions, all five rules, three entry points
    for (const PosC &pc : ps) {
        for (PositionMatch m : RULES) {
            long want = oracle_index(a, pc.p, m);
            c.op(std::string("indexOf ") + kind + " " + match_name(m) + " " + pc.cls);
            boost::optional<ndsize_t> got;
            try { got = D.indexOf(pc.p, m); } catch (std::exception &e) { c.check(false, "C07/index/" + kind + "/" + match_name(m) + "/" + pc.cls + "/exception", a.describe() + " p=" + pos_str(pc.p) + " threw " + e.what()); continue; }
            long g = got ? (long)*got : -1;
            c.check(g == want, "C07/index/" + kind + "/" + match_name(m) + "/" + pc.cls, [&] { return a.describe() + " p=" + pos_str(pc.p) + " rule=" + match_name(m) + " library=" + str(g) + " oracle=" + str(want); });
            // util:: overload must agree with the member
            boost::optional<ndsize_t> ug;
            try { ug = D.utilIndex(pc.p, "none", m); } catch (std::exception &e) { c.check(false, "C07/overload/util-scalar/" + kind + "/exception", a.describe() + " p=" + pos_str(pc.p) + " threw " + e.what()); continue; }
            c.check((ug ? (long)*ug : -1) == g, "C07/overload/util-scalar/" + kind, [&] { return a.describe() + " p=" + pos_str(pc.p) + " rule=" + match_name(m) + " member=" + str(g) + " util=" + str(ug ? (long)*ug : -1); });
        }
        c.count(std::string("class:") + pc.cls);
    }
    // deprecated scalar overloads: GE-or-throw (sampled), LE/GE-or-throw (range)
    for (size_t k = 0; k < ps.size() && k < 40; k++) {
        double p = ps[r.u(ps.size())].p;
        if (a.kind == Axis::Sampled) {
            long want = oracle_index(a, p, PositionMatch::GreaterOrEqual); long g = -2;
            c.op("indexOf-deprecated sampled");
            try { g = (long)D.sd.indexOf(p); } catch (OutOfBounds &) { g = -1; } catch (std::exception &e) { g = -3; }
            c.check(g == want, "C07/overload/deprecated-scalar/sampled", [&] { return a.describe() + " p=" + pos_str(p) + " got=" + str(g) + " oracle=" + str(want); });
        } else if (a.kind == Axis::Range) {
            bool le = r.chance(0.5);
            long want = oracle_index(a, p, le ? PositionMatch::LessOrEqual : PositionMatch::GreaterOrEqual); long g = -2;
            c.op("indexOf-deprecated range");
            try { g = (long)D.rd.indexOf(p, le); } catch (OutOfBounds &) { g = -1; } catch (std::exception &e) { g = -3; }
            c.check(g == want, "C07/overload/deprecated-scalar/range", [&] { return a.describe() + " p=" + pos_str(p) + " le=" + str(le) + " got=" + str(g) + " oracle=" + str(want); });
        }
    }
    // --- pairs: scalar, vector and util overloads, both modes
    std::vector<double> ss, es; std::vector<std::string> cls;
    size_t npairs = std::min<size_t>(ps.size(), 60);
    for (size_t k = 0; k < npairs; k++) {
        const PosC &s = ps[r.u(ps.size())]; const PosC &e = ps[r.u(ps.size())];
        double sp = s.p, ep = e.p;
        if (r.chance(0.8) && sp > ep) std::swap(sp, ep);   // mostly ordered, some reversed
        ss.push_back(sp); es.push_back(ep); cls.push_back(std::string(s.cls) + ">" + e.cls);
    }
    for (RangeMatch m : {RangeMatch::Inclusive, RangeMatch::Exclusive}) {
        std::vector<boost::optional<std::pair<ndsize_t, ndsize_t>>> vec, uvec;
        c.op(std::string("indexOf-vector ") + kind + " " + rm_name(m));
        bool vec_ok = true, uvec_ok = true;
        try { vec = D.pairsOf(ss, es, m); } catch (std::exception &e) { vec_ok = false; c.check(false, "C07/pair-vector/" + kind + "/exception", a.describe() + " threw " + e.what()); }
        try { uvec = D.utilPairs(ss, es, std::vector<std::string>(ss.size(), "none"), m); } catch (std::exception &e) { uvec_ok = false; c.check(false, "C07/pair-util/" + kind + "/exception", a.describe() + " threw " + e.what()); }
        for (size_t k = 0; k < ss.size(); k++) {
            PairIdx want = oracle_pair(a, ss[k], es[k], m);
            c.op(std::string("indexOf-pair ") + kind + " " + rm_name(m));
            boost::optional<std::pair<ndsize_t, ndsize_t>> got;
            try { got = D.pairOf(ss[k], es[k], m); } catch (std::exception &e) { c.check(false, "C07/pair/" + kind + "/" + rm_name(m) + "/exception", a.describe() + " threw " + e.what()); continue; }
            auto same = [&](const boost::optional<std::pair<ndsize_t, ndsize_t>> &g) { return want.valid ? (g && (long)g->first == want.lo && (long)g->second == want.hi) : !g; };
            auto show = [&](const boost::optional<std::pair<ndsize_t, ndsize_t>> &g) { return g ? "(" + str(g->first) + "," + str(g->second) + ")" : std::string("none"); };
            std::string wants = want.valid ? "(" + str(want.lo) + "," + str(want.hi) + ")" : std::string("none");
            c.check(same(got), "C07/pair/" + kind + "/" + rm_name(m) + (ss[k] > es[k] ? "/reversed" : ""), [&] { return a.describe() + " classes=" + cls[k] + " start=" + pos_str(ss[k]) + " end=" + pos_str(es[k]) + " library=" + show(got) + " oracle=" + wants; });
            if (vec_ok && vec.size() == ss.size()) c.check(same(vec[k]) == same(got) && show(vec[k]) == show(got), "C07/overload/pair-vector/" + kind, [&] { return a.describe() + " start=" + pos_str(ss[k]) + " end=" + pos_str(es[k]) + " scalar=" + show(got) + " vector=" + show(vec[k]); });
            if (uvec_ok && uvec.size() == ss.size()) c.check(show(uvec[k]) == show(got), "C07/overload/pair-util/" + kind, [&] { return a.describe() + " start=" + pos_str(ss[k]) + " end=" + pos_str(es[k]) + " scalar=" + show(got) + " util=" + show(uvec[k]); });
        }
        if (vec_ok) c.check(vec.size() == ss.size(), "C07/overload/pair-vector/" + kind + "/length", "vector overload returned " + str(vec.size()) + " for " + str(ss.size()));
    }
    // --- deprecated overloads (pairs, vectors, util:: scalars): "the index / pair, or OutOfBounds when there is none"
    {
        auto pstr = [](long lo, long hi) { return "(" + str(lo) + "," + str(hi) + ")"; };
        size_t nd = std::min<size_t>(ss.size(), 12);
        for (size_t k = 0; k < nd; k++) {
            PairIdx want = oracle_pair(a, ss[k], es[k], RangeMatch::Inclusive);
            long ws = oracle_index(a, ss[k], PositionMatch::GreaterOrEqual), we = oracle_index(a, es[k], PositionMatch::LessOrEqual);
            std::string got = "?"; bool judged = true;
            if (a.kind == Axis::Sampled) {
                c.op("indexOf-deprecated pair sampled");
                try { auto g = D.sd.indexOf(ss[k], es[k]); got = pstr((long)g.first, (long)g.second); } catch (OutOfBounds &) { got = "oob"; } catch (std::exception &e) { got = std::string("exc:") + e.what(); }
                c.check(got == (want.valid ? pstr(want.lo, want.hi) : std::string("oob")), "C07/overload/deprecated-pair/sampled", [&] { return a.describe() + " start=" + pos_str(ss[k]) + " end=" + pos_str(es[k]) + " got=" + got + " oracle=" + (want.valid ? pstr(want.lo, want.hi) : "oob"); });
            } else if (a.kind == Axis::Range) {
                // the deprecated range pair does not test the order of the two indices: judged where the oracle has both ends
                c.op("indexOf-deprecated pair range");
                try { auto g = D.rd.indexOf(ss[k], es[k]); got = pstr((long)g.first, (long)g.second); } catch (OutOfBounds &) { got = "oob"; } catch (std::exception &e) { got = std::string("exc:") + e.what(); }
                std::string w = (ws < 0 || we < 0) ? std::string("oob") : pstr(ws, we); (void)judged;
                c.check(got == w, "C07/overload/deprecated-pair/range", [&] { return a.describe() + " start=" + pos_str(ss[k]) + " end=" + pos_str(es[k]) + " got=" + got + " oracle=" + w; });
            }
        }
        // deprecated vectors: sampled (Inclusive, all-or-OutOfBounds), range (strict: all-or-OutOfBounds; lenient: the valid ones in order)
        for (int rep = 0; rep < 4; rep++) {
            size_t n = 1 + r.u(5); std::vector<double> vs, ve; std::vector<PairIdx> wi, we2; bool all = true;
            RangeMatch m = r.chance(0.5) ? RangeMatch::Inclusive : RangeMatch::Exclusive;
            for (size_t k = 0; k < n; k++) { size_t j = r.u(ss.size()); vs.push_back(ss[j]); ve.push_back(es[j]); }
            std::string wantI, wantM, wantLen;
            for (size_t k = 0; k < n; k++) { PairIdx wI = oracle_pair(a, vs[k], ve[k], RangeMatch::Inclusive), wM = oracle_pair(a, vs[k], ve[k], m); wi.push_back(wI); we2.push_back(wM); if (!wI.valid) all = false; }
            auto render = [&](const std::vector<std::pair<ndsize_t, ndsize_t>> &v) { std::string o; for (auto &x : v) o += pstr((long)x.first, (long)x.second); return o; };
            if (a.kind == Axis::Sampled) {
                for (auto &w : wi) wantI += w.valid ? pstr(w.lo, w.hi) : "";
                std::string got;
                c.op("indexOf-deprecated vector sampled");
                try { got = render(D.sd.indexOf(vs, ve)); } catch (OutOfBounds &) { got = "oob"; } catch (std::exception &e) { got = std::string("exc:") + e.what(); }
                c.check(got == (all ? wantI : std::string("oob")), "C07/overload/deprecated-vector/sampled", [&] { return a.describe() + " n=" + str(n) + " got=" + got + " oracle=" + (all ? wantI : "oob"); });
                c.op("positionToIndex-deprecated vector sampled");
                try { got = render(util::positionToIndex(vs, ve, std::vector<std::string>(n, "none"), D.sd)); } catch (OutOfBounds &) { got = "oob"; } catch (std::exception &e) { got = std::string("exc:") + e.what(); }
                c.check(got == (all ? wantI : std::string("oob")), "C07/overload/deprecated-util-vector/sampled", [&] { return a.describe() + " n=" + str(n) + " got=" + got + " oracle=" + (all ? wantI : "oob"); });
            } else if (a.kind == Axis::Range) {
                bool allM = true; for (auto &w : we2) { wantM += w.valid ? pstr(w.lo, w.hi) : ""; if (!w.valid) allM = false; }
                for (bool strict : {true, false}) {
                    std::string got;
                    c.op(std::string("indexOf-deprecated vector range ") + (strict ? "strict" : "lenient"));
                    try { got = render(D.rd.indexOf(vs, ve, strict, m)); } catch (OutOfBounds &) { got = "oob"; } catch (std::exception &e) { got = std::string("exc:") + e.what(); }
                    std::string w = (strict && !allM) ? std::string("oob") : wantM;
                    c.check(got == w, std::string("C07/overload/deprecated-vector/range/") + (strict ? "strict" : "lenient"), [&] { return a.describe() + " n=" + str(n) + " " + rm_name(m) + " got=" + got + " oracle=" + w; });
                }
                for (auto &w : wi) wantI += w.valid ? pstr(w.lo, w.hi) : "";
                std::string got;
                c.op("positionToIndex-deprecated vector range");
                try { got = render(util::positionToIndex(vs, ve, std::vector<std::string>(n, "none"), D.rd)); } catch (OutOfBounds &) { got = "oob"; } catch (std::exception &e) { got = std::string("exc:") + e.what(); }
                c.check(got == (all ? wantI : std::string("oob")), "C07/overload/deprecated-util-vector/range", [&] { return a.describe() + " n=" + str(n) + " got=" + got + " oracle=" + (all ? wantI : "oob"); });
            } else if (a.kind == Axis::Set) {
                for (auto &w : wi) wantI += w.valid ? pstr(w.lo, w.hi) : "";
                std::string got;
                c.op("positionToIndex-deprecated vector set");
                try { got = render(util::positionToIndex(vs, ve, std::vector<std::string>(n, "none"), D.st)); } catch (OutOfBounds &) { got = "oob"; } catch (std::exception &e) { got = std::string("exc:") + e.what(); }
                c.check(got == (all ? wantI : std::string("oob")), "C07/overload/deprecated-util-vector/set", [&] { return a.describe() + " n=" + str(n) + " got=" + got + " oracle=" + (all ? wantI : "oob"); });
            }
        }
        // deprecated util:: scalars: GreaterOrEqual or OutOfBounds
        for (int k = 0; k < 12; k++) {
            double p = ps[r.u(ps.size())].p; long want = oracle_index(a, p, PositionMatch::GreaterOrEqual), g = -2;
            if (a.kind == Axis::Frame) break;
            c.op("positionToIndex-deprecated scalar " + kind);
            try { g = a.kind == Axis::Sampled ? (long)util::positionToIndex(p, "none", D.sd) : a.kind == Axis::Range ? (long)util::positionToIndex(p, "none", D.rd) : (long)util::positionToIndex(p, "none", D.st); } catch (OutOfBounds &) { g = -1; } catch (std::exception &) { g = -3; }
            c.check(g == want, "C07/overload/deprecated-util-scalar/" + kind, [&] { return a.describe() + " p=" + pos_str(p) + " got=" + str(g) + " oracle=" + str(want); });
        }
    }
    // --- vector overload with a unit per entry (the axis unit, a prefix-scaled unit, or "none"): every entry must convert like the scalar overload does
    if (with_units && !a.unit.empty() && (a.kind == Axis::Sampled || a.kind == Axis::Range)) {
        std::string base = a.unit.substr(a.unit.size() - 1); static const char *pre[] = {"", "m", "k", "u"};
        for (int rep = 0; rep < 3; rep++) {
            std::vector<double> vs, ve; std::vector<std::string> vu; size_t n = 2 + r.u(4);
            for (size_t k = 0; k < n; k++) { const PosC &s0 = ps[r.u(ps.size())]; const PosC &e0 = ps[r.u(ps.size())]; std::string u = r.chance(0.3) ? std::string("none") : std::string(r.pick(pre)) + base; double f = u == "none" ? 1.0 : util::getSIScaling(u, a.unit); double sp = s0.p / f, ep = e0.p / f; if (sp > ep) std::swap(sp, ep); vs.push_back(sp); ve.push_back(ep); vu.push_back(u); }
            RangeMatch m = r.chance(0.5) ? RangeMatch::Inclusive : RangeMatch::Exclusive;
            c.op(std::string("positionToIndex-vector per-entry-units ") + kind + " " + rm_name(m));
            std::vector<boost::optional<std::pair<ndsize_t, ndsize_t>>> got; try { got = D.utilPairs(vs, ve, vu, m); } catch (std::exception &e) { c.check(false, "C07/unit/vector-per-entry/exception", a.describe() + " threw " + e.what()); continue; }
            for (size_t k = 0; k < n && k < got.size(); k++) {
                double f = vu[k] == "none" ? 1.0 : util::getSIScaling(vu[k], a.unit); PairIdx want = oracle_pair(a, vs[k] * f, ve[k] * f, m);
                bool same = want.valid ? (got[k] && (long)got[k]->first == want.lo && (long)got[k]->second == want.hi) : !got[k];
                c.check(same, std::string("C07/unit/vector-per-entry/") + kind + (vu[k] == "none" ? "/none-entry" : "/unit-entry"), [&] { std::string us; for (auto &u : vu) us += u + ","; return a.describe() + " units=[" + us + "] entry " + str(k) + " start=" + pos_str(vs[k]) + " end=" + pos_str(ve[k]) + " library=" + (got[k] ? "(" + str(got[k]->first) + "," + str(got[k]->second) + ")" : std::string("none")) + " oracle=" + (want.valid ? "(" + str(want.lo) + "," + str(want.hi) + ")" : std::string("none")); });
            }
        }
        // scalar overload with a prefix-scaled unit
        for (int k = 0; k < 10; k++) { const PosC &pc = ps[r.u(ps.size())]; PositionMatch m = RULES[r.u(5)]; std::string u = std::string(r.pick(pre)) + base; double f = util::getSIScaling(u, a.unit); double p = pc.p / f;
            c.op("positionToIndex scaled-unit " + kind); long want = oracle_index(a, p * f, m), g = -2; try { auto o = D.utilIndex(p, u, m); g = o ? (long)*o : -1; } catch (std::exception &) { g = -3; }
            c.check(g == want, "C07/unit/scaled/" + kind + "/" + match_name(m), [&] { return a.describe() + " p=" + pos_str(p) + " " + u + " got=" + str(g) + " oracle=" + str(want); }); }
    }
    // --- with a unit: a position given in a scaled unit converts like the scaled position
    if (with_units && !a.unit.empty() && (a.kind == Axis::Sampled || a.kind == Axis::Range)) {
        for (size_t k = 0; k < 20; k++) {
            const PosC &pc = ps[r.u(ps.size())]; PositionMatch m = RULES[r.u(5)];
            // same unit: factor 1, result must equal the plain conversion
            c.op("positionToIndex same-unit " + kind);
            long want = oracle_index(a, pc.p, m); long g = -2;
            try { auto o = D.utilIndex(pc.p, a.unit, m); g = o ? (long)*o : -1; } catch (std::exception &e) { g = -3; }
            c.check(g == want, "C07/unit/same/" + kind + "/" + match_name(m), [&] { return a.describe() + " p=" + pos_str(pc.p) + " got=" + str(g) + " oracle=" + str(want); });
        }
    }
}

static void run_case(Ctx &c) {
    Rng &r = c.rng;
    File f = File::open(c.path("c07.nix"), FileMode::Overwrite);
    Block b = f.createBlock("b", "t");
    int naxes = c.quick() ? 6 : 10;
    long maxidx = 10000;
    for (int k = 0; k < naxes; k++) {
        int kind = (int)r.weighted({5, 3, 2, 2});
        DataArray da = b.createDataArray("a" + str(k), "t", DataType::Double, NDSize{2});
        Dim D; std::vector<long> idx;
        int nidx = c.quick() ? 40 : 100;
        bool with_units = false;
        if (kind == Axis::Sampled) {
            D.ax = gen_sampled(r);
            c.op("appendSampledDimension | dt=" + dstr(D.ax.dt) + " off=" + dstr(D.ax.off));
            D.sd = da.appendSampledDimension(D.ax.dt);
            if (D.ax.off != 0.0) D.sd.offset(D.ax.off);
            if (r.chance(0.5)) { D.ax.unit = r.chance(0.5) ? "ms" : "s"; D.sd.unit(D.ax.unit); with_units = true; }
            // the model's coordinates must be the library's own
            idx.push_back(0); idx.push_back(1); idx.push_back(2);
            for (int j = 0; j < nidx; j++) idx.push_back(r.chance(0.5) ? (long)r.u(101) : (long)r.u(maxidx + 1));
            for (long i : idx) c.check(D.sd.positionAt((ndsize_t)i) == D.ax.x(i), "C07/harness/axis-model", [&] { return D.ax.describe() + " positionAt(" + str(i) + ")=" + hexd(D.sd.positionAt((ndsize_t)i)) + " model=" + hexd(D.ax.x(i)); });
            // axis(count, start) reports the same coordinates x_start .. x_start+count-1, bit for bit (a coordinate that is off by one ulp no longer converts back to its index)
            for (int q = 0; q < 4; q++) { ndsize_t st = q == 0 ? 0 : (ndsize_t)r.u(q == 1 ? 4 : 300), cn = 1 + (ndsize_t)r.u(40); std::vector<double> axv = D.sd.axis(cn, st); bool okx = axv.size() == cn; size_t bad = 0; for (size_t k = 0; okx && k < axv.size(); k++) if (axv[k] != D.ax.x((long)(st + k))) { okx = false; bad = k; }
                c.check(okx, "C07/coordinates/sampled-axis", [&] { return D.ax.describe() + " axis(" + str((long)cn) + "," + str((long)st) + ")[" + str((long)bad) + "] = " + (bad < axv.size() ? hexd(axv[bad]) : std::string("-")) + ", coordinate x_" + str((long)(st + bad)) + " = " + hexd(D.ax.x((long)(st + bad))); }); }
            c.fp("S" + hexd(D.ax.dt) + "/" + hexd(D.ax.off));
        } else if (kind == Axis::Range) {
            long n = r.chance(0.2) ? (long)r.range(1, 3) : (long)r.range(4, 200);
            D.ax = gen_range(r, n);
            c.op("appendRangeDimension | n=" + str(n));
            D.rd = da.appendRangeDimension(D.ax.ticks);
            if (r.chance(0.5)) { D.ax.unit = "mV"; D.rd.unit("mV"); with_units = true; }
            std::vector<double> back = D.rd.ticks();
            c.check(back == D.ax.ticks, "C07/harness/axis-model", "range ticks do not read back");
            for (int j = 0; j < std::min<long>(nidx, n); j++) idx.push_back((long)r.u(n));
            idx.push_back(0); idx.push_back(n - 1);
            c.fp("R" + str(n));
        } else if (kind == Axis::Set) {
            static const long counts[] = {0, 0, 1, 3, 100};
            long L = r.pick(counts);
            D.ax.kind = Axis::Set; D.ax.nlabels = L;
            std::vector<std::string> labels; for (long i = 0; i < L; i++) labels.push_back("l" + str(i));
            c.op("appendSetDimension | labels=" + str(L));
            D.st = da.appendSetDimension(labels);
            long top = L > 0 ? L : 1000;
            for (int j = 0; j < nidx / 2; j++) idx.push_back((long)r.u(top));
            idx.push_back(0); if (L > 0) idx.push_back(L - 1);
            c.fp("L" + str(L));
        } else {
            static const long counts[] = {1, 2, 7, 40};
            long R = r.pick(counts);
            D.ax.kind = Axis::Frame; D.ax.rows = R;
            std::vector<Column> cols = {{"c0", "", DataType::Int64}, {"c1", "mV", DataType::Double}};
            DataFrame df = b.createDataFrame("f" + str(k), "t", cols); df.rows((ndsize_t)R);
            c.op("appendDataFrameDimension | rows=" + str(R));
            D.fd = r.chance(0.5) ? da.appendDataFrameDimension(df, 0u) : da.appendDataFrameDimension(df);
            for (int j = 0; j < nidx / 2; j++) idx.push_back((long)r.u(R));
            idx.push_back(0); idx.push_back(R - 1);
            c.fp("F" + str(R));
        }
        c.count(std::string("axis:") + D.ax.kname());
        check_axis(c, D, idx, with_units);
        // ---- the axis changes through ANOTHER handle (or through the aliased array); the handles held in D
        // must answer for the new axis (a conversion must never be served from state cached per handle)
        if (r.chance(0.6)) {
            std::vector<long> idx2; Dimension other = da.getDimension(1);
            if (kind == Axis::Sampled) {
                Axis nx = gen_sampled(r); c.op("change-axis-via-second-handle sampled");
                SampledDimension o2 = other.asSampledDimension(); o2.samplingInterval(nx.dt); if (nx.off != 0.0) o2.offset(nx.off); else o2.offset(boost::none);
                D.ax.dt = nx.dt; D.ax.off = nx.off; for (int j = 0; j < 12; j++) idx2.push_back((long)r.u(200));
            } else if (kind == Axis::Range) {
                long n2 = (long)r.range(2, 60); Axis nx = gen_range(r, n2); c.op("change-axis-via-second-handle range");
                other.asRangeDimension().ticks(nx.ticks); D.ax.ticks = nx.ticks; for (int j = 0; j < 12; j++) idx2.push_back((long)r.u(n2)); idx2.push_back(n2 - 1);
            } else if (kind == Axis::Set) {
                long L = (long)r.range(1, 9); std::vector<std::string> labels; for (long i = 0; i < L; i++) labels.push_back("m" + str(i)); c.op("change-axis-via-second-handle set");
                other.asSetDimension().labels(labels); D.ax.nlabels = L; for (long i = 0; i < L; i++) idx2.push_back(i);
            } else {
                long R2 = (long)r.range(1, 12); c.op("change-axis-via-frame-rows frame");
                b.getDataFrame("f" + str(k)).rows((ndsize_t)R2); D.ax.rows = R2; for (long i = 0; i < R2; i++) idx2.push_back(i);
            }
            idx2.push_back(0);
            c.count("axis_changed_behind_handle");
            check_axis(c, D, idx2, false);
        }
    }
    // ---- alias range dimension: the ticks are the array's data; writes through the array must be seen by the dimension handle
    {
        long n = (long)r.range(2, 40); Axis ax = gen_range(r, n);
        DataArray da = b.createDataArray("alias", "t", DataType::Double, NDSize{(ndsize_t)n}); da.setData(ax.ticks); da.unit("ms");
        c.op("appendAliasRangeDimension | n=" + str(n));
        Dim D; D.ax = ax; D.rd = da.appendAliasRangeDimension();
        std::vector<long> idx; for (int j = 0; j < 10; j++) idx.push_back((long)r.u(n)); idx.push_back(0); idx.push_back(n - 1);
        check_axis(c, D, idx, false);
        long n2 = (long)r.range(2, 40); Axis nx = gen_range(r, n2);
        c.op("setData-on-aliased-array | n=" + str(n2));
        da.setData(nx.ticks); D.ax.ticks = nx.ticks;
        std::vector<long> idx2; for (int j = 0; j < 10; j++) idx2.push_back((long)r.u(n2)); idx2.push_back(0); idx2.push_back(n2 - 1);
        c.count("axis:alias"); c.count("axis_changed_behind_handle");
        check_axis(c, D, idx2, false);
    }
    c.nontrivial = c.checks > 100;
    f.close();
}

static long ncases(const std::string &tier) { return tier == "quick" ? 64 : 1600; }
// pinned cases for the findings of known_findings.json
static std::vector<std::string> witnesses() { return {"d7-sampled-decimal", "d7-set-frame-epsilon", "d26-none-entry-after-unit"}; }
static void run_witness(Ctx &c, const std::string &name) {
    File f = File::open(c.path("c07w.nix"), FileMode::Overwrite);
    Block b = f.createBlock("b", "t");
    if (name == "d7-sampled-decimal") {
        // interval 0.1 (the tutorial's value), 0.001 and 1/3 with offsets: every sample 0..100 on / beside
        const double dts[] = {0.1, 0.001, 1.0 / 3}; const double offs[] = {0.0, 0.1, -1.0 / 3};
        int k = 0;
        for (double dt : dts) for (double off : offs) {
            DataArray da = b.createDataArray("a" + str(k++), "t", DataType::Double, NDSize{2});
            Dim D; D.ax.kind = Axis::Sampled; D.ax.dt = dt; D.ax.off = off;
            D.sd = da.appendSampledDimension(dt); if (off != 0.0) D.sd.offset(off);
            std::vector<long> idx; for (long i = 0; i <= 100; i++) idx.push_back(i);
            check_axis(c, D, idx, false);
        }
    } else if (name == "d7-set-frame-epsilon") {
        int k = 0;
        for (long L : {0L, 1L, 3L}) {
            DataArray da = b.createDataArray("s" + str(k++), "t", DataType::Double, NDSize{2});
            Dim D; D.ax.kind = Axis::Set; D.ax.nlabels = L; std::vector<std::string> labels; for (long i = 0; i < L; i++) labels.push_back("l" + str(i));
            D.st = da.appendSetDimension(labels);
            std::vector<long> idx; for (long i = 0; i < std::max(L, 5L); i++) idx.push_back(i);
            check_axis(c, D, idx, false);
        }
        for (long R : {1L, 4L}) {
            DataArray da = b.createDataArray("f" + str(k++), "t", DataType::Double, NDSize{2});
            std::vector<Column> cols = {{"c0", "", DataType::Int64}};
            DataFrame df = b.createDataFrame("df" + str(k), "t", cols); df.rows((ndsize_t)R);
            Dim D; D.ax.kind = Axis::Frame; D.ax.rows = R; D.fd = da.appendDataFrameDimension(df, 0u);
            std::vector<long> idx; for (long i = 0; i < R; i++) idx.push_back(i);
            check_axis(c, D, idx, false);
        }
    }
    else if (name == "d26-none-entry-after-unit") {
        DataArray da = b.createDataArray("u", "t", DataType::Double, NDSize{2}); Dim D; D.ax.kind = Axis::Sampled; D.ax.dt = 1.0; D.ax.off = 0.0; D.ax.unit = "s"; D.sd = da.appendSampledDimension(1.0, "", "s");
        c.op("positionToIndex-vector per-entry-units sampled Inclusive");
        auto got = util::positionToIndex({2000.0, 3.0}, {5000.0, 7.0}, {"ms", "none"}, RangeMatch::Inclusive, D.sd);
        c.check(got.size() == 2 && got[1] && got[1]->first == 3 && got[1]->second == 7, "C07/unit/vector-per-entry/sampled/none-entry", std::string("units {ms, none}: the unit-less entry [3,7] converted to ") + (got.size() == 2 && got[1] ? "(" + str(got[1]->first) + "," + str(got[1]->second) + ")" : std::string("none")));
    }
    c.nontrivial = true;
    f.close();
}
static Reg reg({"C07", ncases, run_case, witnesses, run_witness, 120});
