// C17 - position-based slices and DataView windows address exactly their region.
#include "core/core.hpp"
#include "core/retrieval.hpp"
#include <nix/verif_hooks.hpp>
using namespace vm;
using namespace nix;

namespace {

// ------------------------------------------------------------------ slices
struct SliceSpec { std::vector<double> start, end; std::vector<std::string> units; std::vector<double> factor; std::string cls; };
std::string sshow(const SliceSpec &s) { std::string r = "start=" + dshow(s.start) + " end=" + dshow(s.end); if (!s.units.empty()) { r += " units=["; for (auto &u : s.units) r += u + ","; r += "]"; } return r; }

void slice_case(Ctx &c, Block &b, int ai) {
    Rng &r = c.rng; size_t R = 1 + r.weighted({4, 4, 3}); bool use_units = r.chance(0.3);
    RArrayOpts o; o.units = use_units; o.max_extent = R == 3 ? 6 : 9;
    c.op("make-array rank" + str(R));
    RArray A = make_rarray(c, b, "s" + str(ai), R, o);
    c.fp("S" + str(R) + (use_units ? "u" : "")); for (auto &ax : A.ax) c.fp(ax.kname());
    int nslices = c.quick() ? 10 : 16;
    for (int si = 0; si < nslices; si++) {
        SliceSpec s; size_t given = r.chance(0.6) ? R : r.u(R + 1);   // 0..rank entries
        s.cls = given == R ? "full" : (given == 0 ? "none-given" : "fewer");
        bool reversed = false, maybe_empty = false;
        for (size_t d = 0; d < given; d++) {
            const Axis &ax = A.ax[d]; long n = A.shape[d]; std::string c1, c2;
            long i = r.chance(0.1) ? (r.chance(0.5) ? -1 : n + (long)r.u(2)) : (long)r.u(n);
            long j = i + (long)r.u(std::max(1L, n - i + (r.chance(0.1) ? 2 : 0)));
            double f = 1.0; std::string u;
            if (use_units) { u = "none"; if (!ax.unit.empty()) { static const char *pre[] = {"", "m", "k", "u"}; u = std::string(r.pick(pre)) + ax.unit.substr(ax.unit.size() - 1); f = util::getSIScaling(u, ax.unit); } }
            double p = gen_position(ax, n, i, r, c1) / f, q = gen_position(ax, n, j, r, c2) / f;
            if (r.chance(0.06)) { std::swap(p, q); }
            if (p > q) reversed = true;
            s.start.push_back(p); s.end.push_back(q); s.factor.push_back(f); if (use_units) s.units.push_back(u);
        }
        if (use_units && r.chance(0.3)) { s.units.clear(); for (size_t d = 0; d < given; d++) { s.factor[d] = 1.0; } }   // units omitted: taken from the dimensions
        // start and end vectors of different length: the last given dimension has only a start (it runs to the last coordinate) or only an
        // end (it runs from the first coordinate). The entry that WAS given must still be honoured.
        int half = 0; std::vector<double> vstart = s.start, vend = s.end;
        if (given >= 1 && !reversed && !use_units && r.chance(0.2)) {
            size_t d = given - 1; const Axis &ax = A.ax[d]; long n = A.shape[d];
            if (r.chance(0.5)) { half = 1; s.end.pop_back(); vend[d] = ax.x(n - 1); } else { half = 2; s.start.pop_back(); vstart[d] = ax.x(0); }
            s.cls = half == 1 ? "start-only-last-dim" : "end-only-last-dim";
        }
        for (RangeMatch m : {RangeMatch::Inclusive, RangeMatch::Exclusive}) {
            // expected box (alt: a start-only dimension in Exclusive mode may or may not include the last element - both readings are accepted)
            auto make_box = [&](bool alt) {
            Box want; want.lo.resize(R); want.hi.resize(R); maybe_empty = false;
            for (size_t d = 0; d < R && !want.oob; d++) {
                const Axis &ax = A.ax[d]; long n = A.shape[d]; Region rg;
                if (d >= given) rg = region_unspecified(n);
                else {
                    double ps = vstart[d] * s.factor[d], pe = vend[d] * s.factor[d];
                    RangeMatch md = (alt && half == 1 && d == given - 1) ? RangeMatch::Inclusive : m;
                    PairIdx pi = oracle_pair(ax, ps, pe, md);
                    if (vstart[d] > vend[d]) { rg.oob = true; rg.why = "start>end"; }
                    else if (!pi.valid && vstart[d] == vend[d]) rg = region_point(ax, ps, n);   // zero width: first element at or after the position (docs: same rules as for tags)
                    else if (!pi.valid) { rg.oob = true; rg.why = "empty"; }
                    else rg = region_range(ax, ps, pe, md, n);
                }
                if (rg.oob) { want.oob = true; want.why = "dim" + str(d) + ":" + rg.why; }
                want.lo[d] = rg.lo; want.hi[d] = rg.hi;
            }
            return want; };
            Box want = make_box(false);
            c.op(std::string("dataSlice ") + rm_name(m) + " " + s.cls + (reversed ? " reversed" : "") + " | " + sshow(s));
            bool dflt = m == RangeMatch::Exclusive && r.chance(0.3);
            Got g = retrieve([&] { return dflt ? (s.units.empty() ? util::dataSlice(A.da, s.start, s.end) : util::dataSlice(A.da, s.start, s.end, s.units)) : util::dataSlice(A.da, s.start, s.end, s.units, m); });
            if (maybe_empty && !want.oob) { if (g.threw) { c.count("unjudged:empty-region-error"); continue; } c.count("unjudged:empty-region-point"); }
            else if (maybe_empty && want.oob && want.why.find("start>end") == std::string::npos) { c.check(g.threw, std::string("C17/slice/expect-error/") + rm_name(m), [&] { return "empty region outside the data returned " + dshow(g.data) + " | " + A.describe() + sshow(s); }); continue; }
            std::string d = compare_box(A, want, g);
            if (!d.empty() && half == 1 && m == RangeMatch::Exclusive) { Box w2 = make_box(true); if (compare_box(A, w2, g).empty()) { d.clear(); c.count("half-specified:last-element-included"); } }
            if (half) c.count(std::string("half-specified:") + s.cls);
            std::string key = "C17/slice/" + std::string(want.oob ? (reversed ? "start-after-end" : "expect-error") : "expect-data") + "/" + rm_name(m) + "/" + s.cls;
            c.check(d.empty(), key, [&] { return d + " | " + A.describe() + sshow(s) + " mode=" + rm_name(m); });
        }
        c.count("slices");
    }
}

// ------------------------------------------------------------------ views
struct IoEvent { bool write; std::vector<long> count, offset; std::string path; };
std::vector<IoEvent> *g_events = nullptr;
std::vector<long> parse_ndsize(const std::string &s) { std::vector<long> v; size_t a = s.find('{'), b = s.find('}'); if (a == std::string::npos || b == std::string::npos) return v; std::stringstream ss(s.substr(a + 1, b - a - 1)); std::string tok; while (std::getline(ss, tok, ',')) v.push_back(atol(tok.c_str())); return v; }
void sink(const char *kind, const std::string &detail) {
    if (!g_events || strncmp(kind, "io.", 3) != 0) return;
    std::vector<std::string> parts; size_t p = 0; while (true) { size_t q = detail.find('\t', p); parts.push_back(detail.substr(p, q == std::string::npos ? q : q - p)); if (q == std::string::npos) break; p = q + 1; }
    if (parts.size() < 4) return;
    g_events->push_back({strcmp(kind, "io.write") == 0, parse_ndsize(parts[2]), parse_ndsize(parts[3]), parts[0]});
}

void view_case(Ctx &c, Block &b, int ai) {
    Rng &r = c.rng; size_t R = 1 + r.weighted({4, 4, 3});
    static const DataType types[] = {DataType::Int32, DataType::Double, DataType::String, DataType::UInt8, DataType::Int64, DataType::Float};
    DataType dt = r.pick(types); std::string tn = dtname(dt);
    ArrayModel m; std::vector<long> shape(R); for (auto &e : shape) e = 2 + (long)r.u(R == 3 ? 5 : 9);
    m.init(dt, shape);
    c.op("make-view-array " + tn + " rank" + str(R) + " | shape=" + vshow(shape));
    DataArray a = b.createDataArray("v" + str(ai), "t", dt, to_nd(shape));
    uint64_t ord = 1; { std::vector<Val> vals((size_t)m.n()); for (auto &v : vals) v = gen_val(dt, ord++, r, false); RawBuf buf(dt, vals.size()); buf.pack(vals); a.setData(dt, buf.data(), to_nd(shape), NDSize(R, 0)); m.write_box(std::vector<long>(R, 0), shape, vals); }
    c.fp("V" + tn + str(R));
    std::vector<IoEvent> events; g_events = &events; nix::verif::setSink(sink);
    std::string apath;
    for (int wi = 0; wi < 3; wi++) {
        // a window inside the array
        std::vector<long> woff(R), wcnt(R); for (size_t d = 0; d < R; d++) { woff[d] = (long)r.u(shape[d]); wcnt[d] = 1 + (long)r.u(shape[d] - woff[d]); }
        c.op("DataView " + tn + " rank" + str(R) + " | window off=" + vshow(woff) + " cnt=" + vshow(wcnt));
        DataView v(a, to_nd(wcnt), to_nd(woff));
        c.check(from_nd(v.dataExtent()) == wcnt && v.dataType() == dt, "C17/view/extent-type", "DataView::dataExtent/dataType do not echo the window");
        int nreq = c.quick() ? 14 : 20;
        for (int q = 0; q < nreq; q++) {
            // a (count, offset) request relative to the view: inside / touching / crossing the window edge
            std::vector<long> off(R), cnt(R); bool crossing = false; int form = (int)r.weighted({6, 1, 1});   // 0: count+offset, 1: empty offset, 2: empty count and offset
            for (size_t d = 0; d < R; d++) {
                int k = (int)r.weighted({5, 3, 2, 1});
                if (k == 0) { off[d] = (long)r.u(wcnt[d]); cnt[d] = 1 + (long)r.u(wcnt[d] - off[d]); }
                else if (k == 1) { off[d] = (long)r.u(wcnt[d]); cnt[d] = wcnt[d] - off[d]; }                        // touches the edge
                else if (k == 2) { off[d] = (long)r.u(wcnt[d] + 1); cnt[d] = wcnt[d] - off[d] + 1 + (long)r.u(2); crossing = true; }   // crosses the edge (may still lie inside the array)
                else { long j = 1 + (long)r.u(std::max<long>(1, std::min<long>(wcnt[d], 3))); off[d] = -j; cnt[d] = j + (long)r.u(wcnt[d] - std::min(j, wcnt[d]) + 1); if (cnt[d] < 1) cnt[d] = 1; crossing = true; }   // offset of 2^64 - j: offset + count wraps around to a value inside the window
            }
            if (form == 1) { off.assign(R, 0); crossing = false; for (size_t d = 0; d < R; d++) if (cnt[d] > wcnt[d]) crossing = true; }
            if (form == 2) { off.assign(R, 0); cnt = wcnt; crossing = false; }
            NDSize ncnt = form == 2 ? NDSize() : to_nd(cnt), noff = form == 0 ? to_nd(off) : NDSize();
            std::vector<long> aoff(R); for (size_t d = 0; d < R; d++) aoff[d] = woff[d] + off[d];
            long n = ArrayModel::nelms(cnt); bool write = r.chance(0.4);
            events.clear();
            std::string cls = crossing ? "crossing" : "inside";
            if (!write) {
                RawBuf buf(dt, (size_t)n, 0x5A); std::vector<Val> sentinel = buf.unpack((size_t)n);
                c.op("view-read " + tn + " " + cls + " form" + str(form) + " | off=" + vshow(off) + " cnt=" + vshow(cnt));
                bool threw = false, oob = false; try { v.getData(dt, buf.data(), ncnt, noff); } catch (OutOfBounds &) { threw = oob = true; } catch (std::exception &) { threw = true; }
                if (crossing) {
                    c.check(threw && oob, "C17/view/read-crossing-must-throw", [&] { return std::string(threw ? "wrong exception type" : "no exception") + " for request off=" + vshow(off) + " cnt=" + vshow(cnt) + " on window cnt=" + vshow(wcnt); });
                    c.check(buf.unpack((size_t)n) == sentinel, "C17/view/read-crossing-transferred-data", "destination buffer was modified by a rejected read");
                    c.check(events.empty(), "C17/view/rejected-request-reached-backend", [&] { return "a rejected view read issued " + str(events.size()) + " backend I/O calls"; });
                } else if (threw) c.check(false, "C17/view/read-inside-threw", [&] { return "valid request off=" + vshow(off) + " cnt=" + vshow(cnt) + " on window off=" + vshow(woff) + " cnt=" + vshow(wcnt) + " threw"; });
                else {
                    std::string d = first_diff(dt, m.read_box(aoff, cnt), buf.unpack((size_t)n), aoff, cnt);
                    c.check(d.empty(), "C17/view/read-content/" + tn, [&] { return d + " | window off=" + vshow(woff) + " cnt=" + vshow(wcnt) + " request off=" + vshow(off) + " cnt=" + vshow(cnt) + " form" + str(form); });
                }
            } else {
                std::vector<Val> vals((size_t)n); for (auto &x : vals) x = gen_val(dt, ord++, r, false); RawBuf buf(dt, vals.size()); buf.pack(vals);
                c.op("view-write " + tn + " " + cls + " form" + str(form) + " | off=" + vshow(off) + " cnt=" + vshow(cnt));
                bool threw = false, oob = false; try { v.setData(dt, buf.data(), ncnt, noff); } catch (OutOfBounds &) { threw = oob = true; } catch (std::exception &) { threw = true; }
                if (crossing) { c.check(threw && oob, "C17/view/write-crossing-must-throw", [&] { return std::string(threw ? "wrong exception type" : "no exception") + " for write off=" + vshow(off) + " cnt=" + vshow(cnt) + " on window cnt=" + vshow(wcnt); }); c.check(events.empty(), "C17/view/rejected-request-reached-backend", "a rejected view write reached the backend"); }
                else if (threw) c.check(false, "C17/view/write-inside-threw", "valid view write threw");
                else m.write_box(aoff, cnt, vals);
                // the whole array: only the targeted cells may have changed
                std::vector<IoEvent> during = events; events.clear();
                RawBuf all(dt, (size_t)m.n()); a.getDataDirect(dt, all.data(), to_nd(shape), NDSize(R, 0));
                std::string d = first_diff(dt, m.cells, all.unpack((size_t)m.n()), std::vector<long>(R, 0), shape);
                c.check(d.empty(), "C17/view/write-content/" + tn + "/" + cls, [&] { return d + " | window off=" + vshow(woff) + " cnt=" + vshow(wcnt) + " write off=" + vshow(off) + " cnt=" + vshow(cnt) + " form" + str(form); });
                events = during;
            }
            // hook monitor: every backend I/O issued through the view lies inside the window
            for (const IoEvent &e : events) {
                bool inside = e.count.size() == R && e.offset.size() == R; for (size_t d = 0; inside && d < R; d++) inside = e.offset[d] >= woff[d] && e.offset[d] + e.count[d] <= woff[d] + wcnt[d];
                c.check(inside, std::string("C17/view/io-outside-window/") + (e.write ? "write" : "read"), [&] { return "backend " + std::string(e.write ? "write" : "read") + " off=" + vshow(e.offset) + " cnt=" + vshow(e.count) + " issued through a view with window off=" + vshow(woff) + " cnt=" + vshow(wcnt); });
                c.count("hook_io_events");
            }
            c.count("view_requests"); c.count(std::string("view_") + cls);
        }
    }
    // windows that do not fit into the array must be refused at construction
    for (int k = 0; k < 3; k++) {
        std::vector<long> woff(R), wcnt(R); for (size_t d = 0; d < R; d++) { woff[d] = (long)r.u(shape[d]); wcnt[d] = 1 + (long)r.u(shape[d] - woff[d]); }
        size_t d = r.u(R); wcnt[d] = shape[d] - woff[d] + 1 + (long)r.u(3);
        if (k == 2) { if (r.chance(0.5)) wcnt[d] = -(long)(1 + r.u(woff[d] + 1)); else woff[d] = -(long)(1 + r.u(2)), wcnt[d] = 1 + (long)r.u(2) + 1; }   // 2^64 - j: offset + count wraps around into the array
        c.op("DataView-crossing-array-edge | off=" + vshow(woff) + " cnt=" + vshow(wcnt));
        bool threw = false; try { DataView v(a, to_nd(wcnt), to_nd(woff)); } catch (std::exception &) { threw = true; }
        c.check(threw, "C17/view/window-outside-array-accepted", [&] { return "window off=" + vshow(woff) + " cnt=" + vshow(wcnt) + " on array " + vshow(shape) + " was accepted"; });
    }
    nix::verif::setSink(nullptr); g_events = nullptr;
}

void run_case(Ctx &c) {
    File f = File::open(c.path("c17.nix"), FileMode::Overwrite); Block b = f.createBlock("b", "t");
    int n = c.quick() ? 3 : 5;
    for (int i = 0; i < n; i++) slice_case(c, b, i);
    for (int i = 0; i < 2; i++) view_case(c, b, i);
    c.nontrivial = c.checks > 20; f.close();
}
long ncases(const std::string &tier) { return tier == "quick" ? 150 : 4000; }
std::vector<std::string> witnesses() { return {"d2-slice-fewer-entries", "d32-view-offset-wraps"}; }
void run_witness(Ctx &c, const std::string &name) {
    File f = File::open(c.path("w.nix"), FileMode::Overwrite); Block b = f.createBlock("b", "t");
    if (name == "d2-slice-fewer-entries") {
        // 2-D array 4x5, slice gives only the first dimension: the second must be included in full, in both modes,
        // and the argument vectors must not be indexed past their end (ASan)
        RArray A; A.shape = {4, 5}; A.da = b.createDataArray("a", "t", DataType::Double, NDSize{4, 5});
        std::vector<double> lin(20); for (int i = 0; i < 20; i++) lin[i] = i; A.da.setData(DataType::Double, lin.data(), NDSize{4, 5}, NDSize{0, 0});
        Axis a0; a0.kind = Axis::Sampled; a0.dt = 1.0; a0.off = 0.0; Axis a1 = a0; a1.off = 1.0; A.da.appendSampledDimension(1.0); A.da.appendSampledDimension(1.0, "", "", 1.0); A.ax = {a0, a1};
        for (RangeMatch m : {RangeMatch::Inclusive, RangeMatch::Exclusive}) {
            Box want; want.lo = {1, 0}; want.hi = {m == RangeMatch::Inclusive ? 3 : 2, 4};
            c.op(std::string("dataSlice ") + rm_name(m) + " fewer");
            Got g = retrieve([&] { return util::dataSlice(A.da, {1.0}, {3.0}, {}, m); });
            std::string d = compare_box(A, want, g); c.check(d.empty(), std::string("C17/slice/expect-data/") + rm_name(m) + "/fewer", d);
        }
        c.op("dataSlice Exclusive none-given");
        Got g = retrieve([&] { return util::dataSlice(A.da, {}, {}); }); Box whole; whole.lo = {0, 0}; whole.hi = {3, 4};
        std::string d = compare_box(A, whole, g); c.check(d.empty(), "C17/slice/expect-data/Exclusive/none-given", d);
    }
    if (name == "d32-view-offset-wraps") {
        // window [3,7) of 0..9; a request of 2 elements at view offset 2^64-1: offset + count wraps to 1 <= 4. It must be refused,
        // nothing may be transferred and nothing outside the window may be written; the same for a window whose offset + count wraps
        DataArray a = b.createDataArray("a", "t", DataType::Double, NDSize{10});
        std::vector<double> lin(10); for (int i = 0; i < 10; i++) lin[i] = i; a.setData(DataType::Double, lin.data(), NDSize{10}, NDSize{0});
        DataView v(a, NDSize{4}, NDSize{3});
        double buf[2] = {-7, -7}; bool threw = false, oob = false;
        c.op("view-read wrapping offset");
        try { v.getData(DataType::Double, buf, NDSize{2}, NDSize{(ndsize_t)-1}); } catch (OutOfBounds &) { threw = oob = true; } catch (std::exception &) { threw = true; }
        c.check(threw && oob, "C17/view/read-crossing-must-throw", std::string(threw ? "wrong exception type" : "no exception") + " for count {2} at view offset {2^64-1} on window {4}@{3}");
        c.check(buf[0] == -7 && buf[1] == -7, "C17/view/read-crossing-transferred-data", "rejected read delivered " + dstr(buf[0]) + "," + dstr(buf[1]));
        double w[2] = {100, 101}; threw = oob = false;
        c.op("view-write wrapping offset");
        try { v.setData(DataType::Double, w, NDSize{2}, NDSize{(ndsize_t)-1}); } catch (OutOfBounds &) { threw = oob = true; } catch (std::exception &) { threw = true; }
        c.check(threw && oob, "C17/view/write-crossing-must-throw", std::string(threw ? "wrong exception type" : "no exception") + " for a write of {2} at view offset {2^64-1}");
        std::vector<double> now(10); a.getData(DataType::Double, now.data(), NDSize{10}, NDSize{0});
        c.check(now == lin, "C17/view/write-content/Double/crossing", "a refused write through the view changed the array (element 2 = " + dstr(now[2]) + ")");
        threw = false; c.op("DataView wrapping window");
        try { DataView v2(a, NDSize{(ndsize_t)-2}, NDSize{4}); } catch (std::exception &) { threw = true; }
        c.check(threw, "C17/view/window-outside-array-accepted", "window count {2^64-2} at offset {4} on an array of 10 was accepted");
    }
    c.nontrivial = true; f.close();
}
Reg reg({"C17", ncases, run_case, witnesses, run_witness, 120});
}  // namespace
