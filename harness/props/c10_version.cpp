// C10 - format-version gate: read iff same major and not newer minor; write iff identical; Force bypasses; total order.
// Exhaustive over a cube around the library's version plus extreme components, all open modes, Force on and off.
#include "core/core.hpp"
#include <nix.hpp>
#include <hdf5.h>
#include <climits>
#include <tuple>
using namespace vm;
using namespace nix;

namespace {
typedef std::tuple<int, int, int> V3;
const int NCHUNK = 16;

// the same triple stored as 64-bit, 16-bit or big-endian integers (what other writers of the format produce): the attribute is re-created
bool stamp_version_as(const std::string &path, const V3 &v, int kind) {
    long long vals[3] = {std::get<0>(v), std::get<1>(v), std::get<2>(v)};
    if (kind == 2) for (long long x : vals) if (x < -32768 || x > 32767) return false;
    hid_t f = H5Fopen(path.c_str(), H5F_ACC_RDWR, H5P_DEFAULT); if (f < 0) return false;
    hid_t ft = kind == 1 ? H5T_STD_I64LE : kind == 2 ? H5T_STD_I16LE : H5T_STD_I32BE; hsize_t dims[1] = {3}; hid_t sp = H5Screate_simple(1, dims, nullptr);
    bool ok = H5Adelete(f, "version") >= 0; hid_t a = ok ? H5Acreate2(f, "version", ft, sp, H5P_DEFAULT, H5P_DEFAULT) : -1;
    if (a >= 0) { ok = H5Awrite(a, H5T_NATIVE_LLONG, vals) >= 0; H5Aclose(a); } else ok = false;
    H5Sclose(sp); H5Fclose(f); return ok;
}
bool restore_version_attr(const std::string &path) {   // back to the library's own storage type
    hid_t f = H5Fopen(path.c_str(), H5F_ACC_RDWR, H5P_DEFAULT); if (f < 0) return false; hsize_t dims[1] = {3}; hid_t sp = H5Screate_simple(1, dims, nullptr);
    bool ok = H5Adelete(f, "version") >= 0; hid_t a = ok ? H5Acreate2(f, "version", H5T_STD_I32LE, sp, H5P_DEFAULT, H5P_DEFAULT) : -1; int z[3] = {0, 0, 0}; if (a >= 0) { ok = H5Awrite(a, H5T_NATIVE_INT, z) >= 0; H5Aclose(a); } else ok = false; H5Sclose(sp); H5Fclose(f); return ok;
}
bool stamp_version(const std::string &path, const V3 &v) {
    hid_t f = H5Fopen(path.c_str(), H5F_ACC_RDWR, H5P_DEFAULT); if (f < 0) return false;
    hid_t a = H5Aopen(f, "version", H5P_DEFAULT); bool ok = false;
    if (a >= 0) { int buf[3] = {std::get<0>(v), std::get<1>(v), std::get<2>(v)}; ok = H5Awrite(a, H5T_NATIVE_INT, buf) >= 0; H5Aclose(a); }
    H5Fclose(f); return ok;
}
std::string vs(const V3 &v) { return str(std::get<0>(v)) + "." + str(std::get<1>(v)) + "." + str(std::get<2>(v)); }

std::vector<V3> all_triples(const V3 &lib) {
    std::vector<V3> out; int X = std::get<0>(lib), Y = std::get<1>(lib), Z = std::get<2>(lib);
    for (int x = X - 2; x <= X + 2; x++) for (int y = Y - 2; y <= Y + 2; y++) for (int z = Z - 2; z <= Z + 2; z++) out.emplace_back(x, y, z);
    const int ex[] = {0, -1, INT_MAX, INT_MIN, 1000000};
    for (int e : ex) { out.emplace_back(e, Y, Z); out.emplace_back(X, e, Z); out.emplace_back(X, Y, e); out.emplace_back(e, e, e); }
    return out;
}

void gate_case(Ctx &c, int chunk) {
    std::string path = c.path("c10.nix");
    V3 lib; { File f = File::open(path, FileMode::Overwrite); std::vector<int> v = f.version(); lib = V3(v[0], v[1], v[2]); f.createBlock("content", "t"); f.close(); }
    std::vector<V3> T = all_triples(lib); int X = std::get<0>(lib), Y = std::get<1>(lib);
    c.fp("G" + str(chunk));
    for (size_t i = 0; i < T.size(); i++) {
        if ((int)(i % NCHUNK) != chunk) continue;
        const V3 &v = T[i]; int x = std::get<0>(v), y = std::get<1>(v);
        bool can_read = x == X && y <= Y, can_write = v == lib;
        for (int mode = 0; mode < 2; mode++) for (int force = 0; force < 2; force++) {
            if (!stamp_version(path, v)) { c.check(false, "C10/harness/stamp-failed", "could not rewrite the version attribute"); continue; }
            FileMode fm = mode == 0 ? FileMode::ReadOnly : FileMode::ReadWrite; bool expect = force ? true : (mode == 0 ? can_read : can_write);
            std::string cls = std::string(mode == 0 ? "ReadOnly" : "ReadWrite") + (force ? "+Force" : "");
            c.op("open " + cls + " | file version " + vs(v) + " library " + vs(lib));
            bool opened = false; std::string exc; std::vector<int> echoed; bool content = false;
            try { File f = File::open(path, fm, "hdf5", Compression::Auto, force ? OpenFlags::Force : OpenFlags::None); opened = f.isOpen(); echoed = f.version(); content = f.hasBlock("content"); f.close(); }
            catch (std::exception &e) { exc = e.what(); }
            c.check(opened == expect, "C10/gate/" + cls + (expect ? "/refused" : "/accepted"), [&] { return "file version " + vs(v) + ", library " + vs(lib) + ", " + cls + ": " + (opened ? "opened" : "refused (" + exc.substr(0, 100) + ")") + " but the rule says " + (expect ? "open" : "refuse"); });
            if (opened) { c.check(echoed.size() == 3 && V3(echoed[0], echoed[1], echoed[2]) == v, "C10/version-echo/" + cls, [&] { return "file.version() = " + (echoed.size() == 3 ? vs(V3(echoed[0], echoed[1], echoed[2])) : std::string("?")) + " for stored " + vs(v); }); c.check(content, "C10/content-lost/" + cls, "block missing after open"); }
            c.count("opens");
        }
        // the gate decides on the file and the requested mode, not on what else this process holds open: the same opens while
        // another (forced) session on the file is alive. (HDF5 itself refuses a read-write open beside a read-only holder, so only
        // the combinations HDF5 permits are judged.)
        for (int holder = 0; holder < 2; holder++) for (int mode = 0; mode < 2; mode++) for (int force = 0; force < 2; force++) {
            if (holder == 0 && mode == 1) continue;
            if (!stamp_version(path, v)) { c.check(false, "C10/harness/stamp-failed", "could not rewrite the version attribute"); continue; }
            FileMode hm = holder == 0 ? FileMode::ReadOnly : FileMode::ReadWrite, fm = mode == 0 ? FileMode::ReadOnly : FileMode::ReadWrite;
            bool expect = force ? true : (mode == 0 ? can_read : can_write);
            std::string cls = std::string(mode == 0 ? "ReadOnly" : "ReadWrite") + (force ? "+Force" : "") + (holder == 0 ? "/beside-ReadOnly-holder" : "/beside-ReadWrite-holder");
            c.op("open " + cls + " | file version " + vs(v) + " library " + vs(lib));
            File h; try { h = File::open(path, hm, "hdf5", Compression::Auto, OpenFlags::Force); } catch (std::exception &e) { c.check(false, "C10/gate/holder-refused", std::string("forced open refused: ") + e.what()); continue; }
            bool opened = false; std::string exc;
            try { File f = File::open(path, fm, "hdf5", Compression::Auto, force ? OpenFlags::Force : OpenFlags::None); opened = f.isOpen(); f.close(); } catch (std::exception &e) { exc = e.what(); }
            h.close();
            c.check(opened == expect, "C10/gate/" + cls + (expect ? "/refused" : "/accepted"), [&] { return "file version " + vs(v) + ", library " + vs(lib) + ", " + cls + ": " + (opened ? "opened" : "refused (" + exc.substr(0, 100) + ")") + ", expected " + (expect ? "open" : "refusal"); });
            c.count("opens"); c.count("opens_beside_holder");
        }
        // the decision depends on the triple, not on the integer type it is stored with
        if (i % 3 == 0) for (int kind = 1; kind <= 3; kind++) for (int mode = 0; mode < 2; mode++) {
            if (!stamp_version_as(path, v, kind)) { c.count("storage_type_not_applicable"); continue; }
            FileMode fm = mode == 0 ? FileMode::ReadOnly : FileMode::ReadWrite; bool expect = mode == 0 ? can_read : can_write;
            std::string cls = std::string(mode == 0 ? "ReadOnly" : "ReadWrite") + (kind == 1 ? "/stored-as-int64" : kind == 2 ? "/stored-as-int16" : "/stored-as-int32-big-endian");
            c.op("open " + cls + " | file version " + vs(v) + " library " + vs(lib));
            bool opened = false; std::string exc; std::vector<int> echoed;
            try { File f = File::open(path, fm); opened = f.isOpen(); echoed = f.version(); f.close(); } catch (std::exception &e) { exc = e.what(); }
            c.check(opened == expect, "C10/gate/" + cls + (expect ? "/refused" : "/accepted"), [&] { return "file version " + vs(v) + ", library " + vs(lib) + ", " + cls + ": " + (opened ? "opened" : "refused (" + exc.substr(0, 100) + ")") + ", expected " + (expect ? "open" : "refusal"); });
            if (opened) c.check(echoed.size() == 3 && V3(echoed[0], echoed[1], echoed[2]) == v, "C10/version-echo/" + cls, "file.version() does not echo the stored triple");
            c.count("opens"); c.count("opens_other_storage_type");
        }
        if (i % 3 == 0 && !restore_version_attr(path)) c.check(false, "C10/harness/stamp-failed", "could not restore the version attribute");
        // Overwrite always yields a fresh file at the library version
        for (int force = 0; force < 2; force++) {
            if (i % 5 != (size_t)force) continue;   // (destroys the content: done for a fifth of the triples each)
            stamp_version(path, v);
            c.op(std::string("open Overwrite") + (force ? "+Force" : "") + " | file version " + vs(v));
            try { File f = File::open(path, FileMode::Overwrite, "hdf5", Compression::Auto, force ? OpenFlags::Force : OpenFlags::None); std::vector<int> e = f.version(); c.check(f.blockCount() == 0 && f.sectionCount() == 0 && V3(e[0], e[1], e[2]) == lib, "C10/overwrite", "Overwrite did not yield an empty file at the library version"); f.createBlock("content", "t"); f.close(); }
            catch (std::exception &e) { c.check(false, "C10/overwrite", std::string("Overwrite on a file of version ") + vs(v) + " threw: " + e.what()); File f = File::open(path, FileMode::Overwrite); f.createBlock("content", "t"); f.close(); }
            c.count("opens");
        }
        c.count("triples");
    }
    c.count("exhaustive_complete");
}

void order_case(Ctx &c) {
    c.fp("O");
    std::vector<V3> G; const int vals[] = {-1, 0, 1, 2, 3, INT_MAX, INT_MIN};
    for (int x : vals) for (int y : vals) for (int z : vals) G.emplace_back(x, y, z);
    auto fv = [](const V3 &v) { return FormatVersion({std::get<0>(v), std::get<1>(v), std::get<2>(v)}); };
    c.op("ordering laws | pairs over a 7^3 grid");
    long bad_tri = 0, bad_cons = 0, bad_lex = 0, bad_can = 0; std::string w1, w2, w3, w4;
    for (auto &a : G) for (auto &b : G) {
        FormatVersion A = fv(a), B = fv(b); bool lt = A < B, gt = A > B, eq = A == B, le = A <= B, ge = A >= B, ne = A != B;
        if ((int)lt + (int)gt + (int)eq != 1) { if (!bad_tri++) w1 = vs(a) + " vs " + vs(b) + ": <" + str(lt) + " >" + str(gt) + " ==" + str(eq); }
        if (le != (lt || eq) || ge != (gt || eq) || ne == eq) { if (!bad_cons++) w2 = vs(a) + " vs " + vs(b); }
        if (lt != (a < b) || eq != (a == b)) { if (!bad_lex++) w3 = vs(a) + " vs " + vs(b) + ": operator< says " + str(lt) + ", lexicographic order says " + str(a < b); }
        bool cr = A.canRead(B), cw = A.canWrite(B); if (cr != (std::get<0>(a) == std::get<0>(b) && std::get<1>(a) >= std::get<1>(b)) || cw != (a == b)) { if (!bad_can++) w4 = vs(a) + " canRead/canWrite " + vs(b) + " = " + str(cr) + "/" + str(cw); }
        c.checks += 4;
    }
    c.check(bad_tri == 0, "C10/order/trichotomy", "exactly one of <, ==, > must hold; " + str(bad_tri) + " pairs fail, e.g. " + w1);
    c.check(bad_cons == 0, "C10/order/derived-operators", str(bad_cons) + " pairs where <=, >=, != disagree with <, ==; e.g. " + w2);
    c.check(bad_lex == 0, "C10/order/lexicographic", str(bad_lex) + " pairs differ from the lexicographic order; e.g. " + w3);
    c.check(bad_can == 0, "C10/order/canRead-canWrite", str(bad_can) + " pairs; e.g. " + w4);
    c.op("ordering laws | transitivity over a 5^3 grid");
    std::vector<V3> S; const int sv[] = {0, 1, 2, INT_MAX, INT_MIN}; for (int x : sv) for (int y : sv) for (int z : sv) S.emplace_back(x, y, z);
    long bad_trans = 0; std::string w5;
    for (auto &a : S) for (auto &b : S) { if (!(fv(a) < fv(b))) continue; for (auto &d : S) if (fv(b) < fv(d) && !(fv(a) < fv(d))) { if (!bad_trans++) w5 = vs(a) + " < " + vs(b) + " < " + vs(d); } }
    c.checks += (long)S.size() * (long)S.size();
    c.check(bad_trans == 0, "C10/order/transitivity", str(bad_trans) + " triples fail, e.g. " + w5);
    // irreflexive
    for (auto &a : G) c.check(!(fv(a) < fv(a)), "C10/order/irreflexive", vs(a) + " < itself");
    c.count("exhaustive_complete");
}

void run_case(Ctx &c) { if ((int)c.index < NCHUNK) gate_case(c, (int)c.index); else order_case(c); c.nontrivial = true; }
long ncases(const std::string &) { return NCHUNK + 1; }
std::vector<std::string> witnesses() { return {}; }
void run_witness(Ctx &, const std::string &) {}
Reg reg({"C10", ncases, run_case, witnesses, run_witness, 300});
}  // namespace
