// C14 - metadata property values round trip with type, order, unit and uncertainty.
#include "core/core.hpp"
#include "core/graph.hpp"
#include <cfloat>
#include <climits>
using namespace vm;
using namespace nix;

namespace {
const DataType TYPES[] = {DataType::Bool, DataType::Int32, DataType::UInt32, DataType::Int64, DataType::UInt64, DataType::Double, DataType::String};

struct MV { DataType t; uint64_t bits = 0; std::string s; bool operator==(const MV &o) const { return t == o.t && bits == o.bits && s == o.s; } };
MV of(const Variant &v) { MV m; m.t = v.type(); switch (m.t) { case DataType::Bool: m.bits = v.get<bool>(); break; case DataType::Int32: { int32_t x = v.get<int32_t>(); memcpy(&m.bits, &x, 4); break; } case DataType::UInt32: m.bits = v.get<uint32_t>(); break; case DataType::Int64: { int64_t x = v.get<int64_t>(); memcpy(&m.bits, &x, 8); break; } case DataType::UInt64: m.bits = v.get<uint64_t>(); break; case DataType::Double: { double x = v.get<double>(); memcpy(&m.bits, &x, 8); break; } case DataType::String: m.s = v.get<std::string>(); break; default: break; } return m; }
std::string show(const MV &m) { if (m.t == DataType::String) return "'" + (m.s.size() > 30 ? m.s.substr(0, 30) + "...(" + str(m.s.size()) + ")" : m.s) + "'"; if (m.t == DataType::Double) { double d; memcpy(&d, &m.bits, 8); return hexd(d); } return str(m.bits); }
std::string showv(const std::vector<MV> &v) { std::string s = "["; for (size_t i = 0; i < v.size() && i < 6; i++) s += show(v[i]) + ","; if (v.size() > 6) s += "..(" + str(v.size()) + ")"; return s + "]"; }

Variant gen(DataType t, Rng &r, bool big_strings) {
    bool ex = r.chance(0.25);
    switch (t) {
    case DataType::Bool: return Variant(r.chance(0.5));
    case DataType::Int32: { static const int32_t e[] = {INT32_MIN, INT32_MAX, 0, -1, 1}; return Variant(ex ? r.pick(e) : (int32_t)r.next()); }
    case DataType::UInt32: { static const uint32_t e[] = {0, UINT32_MAX, 0x80000000u, 1}; return Variant(ex ? r.pick(e) : (uint32_t)r.next()); }
    case DataType::Int64: { static const int64_t e[] = {INT64_MIN, INT64_MAX, 0, -1, (int64_t)1 << 53}; return Variant(ex ? r.pick(e) : (int64_t)r.next()); }
    case DataType::UInt64: { static const uint64_t e[] = {0, UINT64_MAX, (uint64_t)1 << 63, ((uint64_t)1 << 63) + 1}; return Variant(ex ? r.pick(e) : (uint64_t)r.next()); }
    case DataType::Double: { static const double e[] = {0.0, -0.0, INFINITY, -INFINITY, DBL_MAX, -DBL_MAX, DBL_MIN, 4.9e-324, 0.1}; if (ex) { if (r.chance(0.3)) { uint64_t bits = 0x7ff8000000000000ULL | (r.next() & 0x7ffffffffffffULL) | (r.chance(0.5) ? 0x8000000000000000ULL : 0); double d; memcpy(&d, &bits, 8); return Variant(d); } return Variant(r.pick(e)); } return Variant((r.real() - 0.5) * std::ldexp(1.0, (int)r.range(-60, 60))); }
    default: { int k = (int)r.u(8); if (k == 0) return Variant(std::string()); if (k == 1) return Variant(std::string(big_strings ? 65536 : 3000, 'v') + str(r.u(10))); if (k == 2) return Variant(std::string("\xc3\xa4\xe2\x82\xac\xf0\x9f\x98\x80 utf8")); if (k == 3) return Variant(std::string(" leading and trailing ")); return Variant("s" + str(r.u(100000))); }
    }
}

struct PM { std::string name; DataType t; std::vector<MV> vals; bool judged = true; boost::optional<std::string> unit, definition; boost::optional<double> unc; std::string id; Property h[2]; /* long-lived handles: [0] the one create returned, [1] looked up once */ };

struct H {
    Ctx &c; Rng &r; File f; Section s; std::string path; std::vector<PM> props; long serial = 0;
    H(Ctx &cx) : c(cx), r(cx.rng) {}
    std::vector<Variant> genv(DataType t, size_t n) { std::vector<Variant> v; for (size_t i = 0; i < n; i++) v.push_back(gen(t, r, !c.quick())); return v; }
    size_t len() { int k = (int)r.u(10); if (k == 0) return 0; if (k == 1) return c.quick() ? 64 : 1 + r.u(4096); return 1 + r.u(12); }

    // a property is reached through a fresh lookup or through one of two long-lived handles (state kept per handle object would show)
    Property pick(PM &w, bool by_id = false) {
        int k = (int)r.u(3);
        if (k == 0) return by_id ? s.getProperty(w.id) : s.getProperty(w.name);
        Property &h = w.h[k - 1]; if (!h) h = r.chance(0.5) ? s.getProperty(w.name) : s.getProperty(w.id);
        c.count(k == 1 ? "via:handle-a" : "via:handle-b"); return h;
    }
    void drop_handles() { for (auto &w : props) { w.h[0] = nix::none; w.h[1] = nix::none; } }
    void compare(PM &w, const char *when) {
        std::string K = "C14/" + dtname(w.t) + "/";
        Property p; try { p = pick(w, r.chance(0.5)); } catch (std::exception &e) { c.check(false, K + "lookup", std::string("getProperty threw ") + e.what()); return; }
        if (!p) { c.check(false, K + "lookup", "property '" + w.name + "' not found (" + when + ")"); return; }
        try {
            c.check(p.dataType() == w.t, K + "dtype", [&] { return "dataType " + dtname(p.dataType()) + " created as " + dtname(w.t) + " (" + when + ")"; });
            c.check(p.id() == w.id && p.name() == w.name, K + "identity", "id / name changed");
            if (w.judged) {
                std::vector<MV> got; for (auto &v : p.values()) got.push_back(of(v));
                c.check(got == w.vals, K + "values", [&] { size_t i = 0; while (i < got.size() && i < w.vals.size() && got[i] == w.vals[i]) i++; return "values() " + showv(got) + " (n=" + str(got.size()) + ") expected " + showv(w.vals) + " (n=" + str(w.vals.size()) + "), first difference at position " + str(i) + " (" + when + ")"; });
                c.check(p.valueCount() == w.vals.size(), K + "valueCount", [&] { return "valueCount " + str(p.valueCount()) + " expected " + str(w.vals.size()) + " (" + when + ")"; });
            }
            c.check(p.unit() == w.unit, K + "unit", [&] { return "unit " + (p.unit() ? *p.unit() : std::string("none")) + " expected " + (w.unit ? *w.unit : std::string("none")) + " (" + when + ")"; });
            c.check(p.definition() == w.definition, K + "definition", "definition differs");
            boost::optional<double> u = p.uncertainty(); bool same = (!u && !w.unc) || (u && w.unc && memcmp(&*u, &*w.unc, 8) == 0);
            c.check(same, K + "uncertainty", [&] { return "uncertainty " + (u ? hexd(*u) : std::string("none")) + " expected " + (w.unc ? hexd(*w.unc) : std::string("none")) + " (" + when + ")"; });
        } catch (std::exception &e) { c.check(false, K + "getter-exception", std::string("getter threw: ") + e.what() + " (" + when + ")"); }
    }
    void compare_all(const char *when) { for (auto &w : props) compare(w, when); c.check((size_t)s.propertyCount() == props.size(), "C14/property-count", "propertyCount differs from the model"); }

    void op() {
        int k = (int)r.weighted({props.size() < 6 ? 4 : 0, props.empty() ? 0 : 8, props.empty() ? 0 : 3, props.empty() ? 0 : 4, props.empty() ? 0 : 3, 1, props.size() > 2 ? 1 : 0});
        try {
            switch (k) {
            case 0: {   // create through one of the three overloads
                DataType t = r.pick(TYPES); PM w; w.t = t; w.name = gen_name(r, serial++, 25); for (auto &x : props) if (x.name == w.name) w.name += str(serial++); if (w.name == ".") w.name = "dot";
                int o = (int)r.u(3); Property p;
                if (o == 0) { c.op("createProperty dtype-only " + dtname(t)); p = s.createProperty(w.name, t); w.judged = false; /* values of a never-assigned property are not specified (D16) */ }
                else if (o == 1) { Variant v = gen(t, r, false); c.op("createProperty single-value " + dtname(t)); p = s.createProperty(w.name, v); w.vals = {of(v)}; }
                else { std::vector<Variant> v = genv(t, 1 + r.u(12)); c.op("createProperty value-vector " + dtname(t) + " | n=" + str(v.size())); p = s.createProperty(w.name, v); for (auto &x : v) w.vals.push_back(of(x)); }
                w.id = p.id(); w.h[0] = p; props.push_back(w); c.count("type:" + dtname(t)); break; }
            case 1: {   // assign / replace (shorter, longer, empty)
                PM &w = props[r.u(props.size())]; Property p = pick(w); std::vector<Variant> v = genv(w.t, len());
                c.op("values-assign " + dtname(w.t) + (v.size() < w.vals.size() ? " shorter" : v.size() > w.vals.size() ? " longer" : " same-length") + " | n=" + str(v.size()));
                p.values(v); w.vals.clear(); for (auto &x : v) w.vals.push_back(of(x)); w.judged = true; c.count("values_assigned", (long)v.size()); break; }
            case 2: {   // clear
                PM &w = props[r.u(props.size())]; Property p = pick(w); int q = (int)r.u(3);
                c.op(std::string(q == 0 ? "values-none " : q == 1 ? "deleteValues " : "values-empty-vector ") + dtname(w.t));
                if (q == 0) p.values(nix::none); else if (q == 1) p.deleteValues(); else p.values(std::vector<Variant>{}); w.vals.clear(); w.judged = true; break; }
            case 3: {   // unit / uncertainty / definition set and none
                PM &w = props[r.u(props.size())]; Property p = pick(w, true); int q = (int)r.u(6);
                if (q == 0) { static const char *us[] = {"mV", "ms", "uS/cm", "\xc2\xb5V", "mumol/l", "maximum", "arbitrary unit", "Hz"}; std::string u = r.pick(us); c.op("unit set"); p.unit(u); std::string d = u; d.erase(std::remove_if(d.begin(), d.end(), [](char ch) { return ch > 0 && std::isblank(ch); }), d.end()); w.unit = d; }
                else if (q == 1) { c.op("unit none"); p.unit(nix::none); w.unit = boost::none; }
                else if (q == 2) { double u = r.chance(0.2) ? 0.0 : r.real() * 10; c.op("uncertainty set"); p.uncertainty(u); w.unc = u; }
                else if (q == 3) { c.op("uncertainty none"); p.uncertainty(nix::none); w.unc = boost::none; }
                else if (q == 4) { std::string d = "definition " + str(r.u(100)) + " \xc3\xa4"; c.op("definition set"); p.definition(d); w.definition = d; }
                else { c.op("definition none"); p.definition(nix::none); w.definition = boost::none; }
                break; }
            case 4: {   // type-mismatching assignment must be rejected and must not change the values
                PM &w = props[r.u(props.size())]; Property p = pick(w); DataType other = w.t; while (other == w.t) other = r.pick(TYPES);
                std::vector<Variant> v = genv(w.t, 1 + r.u(6)); size_t pos = r.chance(0.5) ? 0 : r.u(v.size()); v[pos] = gen(other, r, false); if (r.chance(0.3)) v = genv(other, 1 + r.u(5));
                c.op("values-assign type-mismatch " + dtname(w.t) + " at-" + (pos == 0 ? "first" : "later") + (v.size() == w.vals.size() ? " same-length" : " other-length"));
                bool threw = false; try { p.values(v); } catch (std::exception &) { threw = true; }
                c.check(threw, "C14/mismatch-accepted/" + dtname(w.t), [&] { return "values of type " + dtname(other) + " accepted by a " + dtname(w.t) + " property"; });
                if (!threw) { w.vals.clear(); for (auto &x : v) w.vals.push_back(of(x)); }
                break; }
            case 5: { c.op("close+reopen"); std::string sn = s.name(); drop_handles(); s = nix::none; f.close(); f = File::open(path, r.chance(0.5) ? FileMode::ReadWrite : FileMode::ReadOnly); s = f.getSection(sn); compare_all("after reopen"); if (f.fileMode() == FileMode::ReadOnly) { drop_handles(); s = nix::none; f.close(); f = File::open(path, FileMode::ReadWrite); s = f.getSection(sn); } break; }
            case 6: { size_t i = r.u(props.size()); c.op("deleteProperty"); s.deleteProperty(props[i].name); props.erase(props.begin() + (long)i); break; }
            }
        } catch (std::exception &e) { c.check(false, "C14/legal-op-threw/op" + str(k), std::string("valid operation threw: ") + e.what()); }
        c.fp(str(k));
        compare_all("after op");
    }
    void run() {
        path = c.path("c14.nix"); f = File::open(path, FileMode::Overwrite, "hdf5", r.chance(0.5) ? Compression::Auto : Compression::None); s = f.createSection("sec", "t"); if (r.chance(0.5)) s = s.createSection("nested", "t");
        if (s.name() == "nested") { /* nested section: reopen through the parent */ }
        int n = (int)r.range(12, 35);
        // reopen needs a root section name; keep the property section at root level for the reopen step
        s = f.getSection("sec");
        for (int i = 0; i < n; i++) op();
        c.nontrivial = c.checks > 20; drop_handles(); s = nix::none; f.close();
    }
};
void run_case(Ctx &c) { H h(c); h.run(); }
long ncases(const std::string &tier) { return tier == "quick" ? 400 : 10000; }
std::vector<std::string> witnesses() { return {}; }
void run_witness(Ctx &, const std::string &) {}
Reg reg({"C14", ncases, run_case, witnesses, run_witness, 120});
}  // namespace
