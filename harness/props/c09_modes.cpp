// C09 - file open modes: ReadOnly never writes, ReadWrite preserves, Overwrite empties; invalid files are refused.
#include "core/core.hpp"
#include "core/graph.hpp"
#include <hdf5.h>
#include <sys/wait.h>
#include <sys/stat.h>
#include <fstream>
using namespace vm;
using namespace nix;

namespace {

std::string file_bytes(const std::string &p) { std::ifstream f(p, std::ios::binary); return std::string((std::istreambuf_iterator<char>(f)), std::istreambuf_iterator<char>()); }
std::string digest(const std::string &bytes) { return str(bytes.size()) + ":" + str(hash_str(bytes)); }

// one of everything, with values set, so that every mutator of the surface table has something to change
void build_rich(File &f) {
    Section s1 = f.createSection("sec", "t"), s2 = f.createSection("sec2", "t"); Section sub = s1.createSection("sub", "t");
    s1.repository("http://repo"); s1.definition("sdef"); s1.link(s2);
    Property p = s1.createProperty("prop", std::vector<Variant>{Variant(1.5), Variant(2.5)}); p.unit("mV"); p.uncertainty(0.5); p.definition("pdef");
    Block b = f.createBlock("blk", "t"); b.definition("bdef"); b.metadata(s1); f.createBlock("blk2", "t");
    Source so = b.createSource("src", "t"), so2 = b.createSource("src2", "t"); so.createSource("child", "t"); so.definition("sodef"); so.metadata(sub);
    DataArray a = b.createDataArray("arr", "t", DataType::Double, NDSize{4, 3}); std::vector<double> d(12); for (int i = 0; i < 12; i++) d[(size_t)i] = i; a.setData(DataType::Double, d.data(), NDSize{4, 3}, NDSize{0, 0});
    a.label("lbl"); a.unit("mV"); a.expansionOrigin(1.0); a.polynomCoefficients({1.0, 2.0}); a.definition("adef"); a.metadata(s2); a.addSource(so); a.addSource(so2);
    SampledDimension sd = a.appendSampledDimension(0.5, "time", "ms", 1.0); SetDimension st = a.appendSetDimension({"a", "b", "c"}); st.label("setlbl");
    DataArray r1 = b.createDataArray("rng", "t", DataType::Double, NDSize{3}); r1.appendRangeDimension({1.0, 2.0, 3.0}, "rl", "s");
    DataArray a2 = b.createDataArray("arr2", "t", DataType::Double, NDSize{3}); b.createDataArray("nodim", "t", DataType::Double, NDSize{3});
    DataFrame df = b.createDataFrame("frame", "t", {{"c0", "mV", DataType::Double}, {"c1", "", DataType::String}}); df.rows(2); df.writeRow(0, {Variant(1.0), Variant("x")}); df.addSource(so);
    b.createDataFrame("frame2", "t", {{"z", "", DataType::Int32}});
    Tag t = b.createTag("tag", "t", {1.0, 1.0}); t.extent({1.0, 1.0}); t.units({"ms", ""}); t.addReference(a); t.addReference(a2); t.createFeature(a2, LinkType::Untagged); t.addSource(so); t.metadata(s2); b.createTag("tag2", "t", {0.0});
    DataArray pos = b.createDataArray("pos", "t", DataType::Double, NDSize{2, 2}), ext = b.createDataArray("ext", "t", DataType::Double, NDSize{2, 2}), pos2 = b.createDataArray("pos2", "t", DataType::Double, NDSize{2, 2});
    MultiTag mt = b.createMultiTag("mtag", "t", pos); mt.extents(ext); mt.units({"ms"}); mt.addReference(a); mt.createFeature(a2, LinkType::Indexed); b.createMultiTag("mtag2", "t", pos2);
    Group g = b.createGroup("grp", "t"); g.addDataArray(a); g.addTag(t); g.addMultiTag(mt); g.addDataFrame(df); b.createGroup("grp2", "t");
}

struct Mut { std::string name; std::function<void(File &)> call; };
std::vector<Mut> surface() {
    std::vector<Mut> M; auto add = [&](const std::string &n, std::function<void(File &)> f) { M.push_back({n, f}); };
#define B f.getBlock("blk")
#define A f.getBlock("blk").getDataArray("arr")
#define S f.getSection("sec")
#define T f.getBlock("blk").getTag("tag")
#define MT f.getBlock("blk").getMultiTag("mtag")
#define G f.getBlock("blk").getGroup("grp")
#define SO f.getBlock("blk").getSource("src")
#define DF f.getBlock("blk").getDataFrame("frame")
#define P f.getSection("sec").getProperty("prop")
    add("File::createBlock", [](File &f) { f.createBlock("new", "t"); }); add("File::deleteBlock", [](File &f) { f.deleteBlock("blk2"); }); add("File::createSection", [](File &f) { f.createSection("new", "t"); }); add("File::deleteSection", [](File &f) { f.deleteSection("sec2"); });
    add("File::forceUpdatedAt", [](File &f) { f.forceUpdatedAt(); }); add("File::forceCreatedAt", [](File &f) { f.forceCreatedAt(12345); }); add("File::forceId", [](File &f) { f.forceId(); });
    add("Block::createDataArray", [](File &f) { B.createDataArray("new", "t", DataType::Double, NDSize{2}); }); add("Block::deleteDataArray", [](File &f) { B.deleteDataArray("nodim"); });
    add("Block::createDataFrame", [](File &f) { B.createDataFrame("new", "t", {{"c", "", DataType::Double}}); }); add("Block::deleteDataFrame", [](File &f) { B.deleteDataFrame("frame2"); });
    add("Block::createTag", [](File &f) { B.createTag("new", "t", {1.0}); }); add("Block::deleteTag", [](File &f) { B.deleteTag("tag2"); });
    add("Block::createMultiTag", [](File &f) { B.createMultiTag("new", "t", B.getDataArray("pos")); }); add("Block::deleteMultiTag", [](File &f) { B.deleteMultiTag("mtag2"); });
    add("Block::createGroup", [](File &f) { B.createGroup("new", "t"); }); add("Block::deleteGroup", [](File &f) { B.deleteGroup("grp2"); });
    add("Block::createSource", [](File &f) { B.createSource("new", "t"); }); add("Block::deleteSource", [](File &f) { B.deleteSource("src2"); });
    add("Block::definition", [](File &f) { B.definition("other"); }); add("Block::definition-none", [](File &f) { B.definition(nix::none); }); add("Block::type", [](File &f) { B.type("other"); });
    add("Block::metadata", [](File &f) { B.metadata(f.getSection("sec2")); }); add("Block::metadata-none", [](File &f) { B.metadata(nix::none); }); add("Block::forceCreatedAt", [](File &f) { B.forceCreatedAt(777); }); add("Block::forceUpdatedAt", [](File &f) { B.forceUpdatedAt(); });
    add("DataArray::label", [](File &f) { A.label("other"); }); add("DataArray::label-none", [](File &f) { A.label(nix::none); }); add("DataArray::unit", [](File &f) { A.unit("uV"); }); add("DataArray::unit-none", [](File &f) { A.unit(nix::none); });
    add("DataArray::expansionOrigin", [](File &f) { A.expansionOrigin(5.0); }); add("DataArray::expansionOrigin-none", [](File &f) { A.expansionOrigin(nix::none); }); add("DataArray::polynomCoefficients", [](File &f) { A.polynomCoefficients({3.0}); }); add("DataArray::polynomCoefficients-none", [](File &f) { A.polynomCoefficients(nix::none); });
    add("DataArray::setData", [](File &f) { double v = 99; A.setData(DataType::Double, &v, NDSize{1, 1}, NDSize{0, 0}); }); add("DataArray::setData-typed", [](File &f) { std::vector<double> v{7, 8, 9}; f.getBlock("blk").getDataArray("arr2").setData(v); });
    add("DataArray::dataExtent", [](File &f) { A.dataExtent(NDSize{5, 3}); }); add("DataArray::appendData", [](File &f) { std::vector<double> v(3, 1.0); A.appendData(DataType::Double, v.data(), NDSize{1, 3}, 0); });
    add("DataArray::appendSampledDimension", [](File &f) { B.getDataArray("nodim").appendSampledDimension(1.0); }); add("DataArray::appendRangeDimension", [](File &f) { B.getDataArray("nodim").appendRangeDimension({1.0, 2.0}); }); add("DataArray::appendSetDimension", [](File &f) { B.getDataArray("nodim").appendSetDimension({"x"}); });
    add("DataArray::appendAliasRangeDimension", [](File &f) { B.getDataArray("nodim").appendAliasRangeDimension(); }); add("DataArray::appendDataFrameDimension", [](File &f) { B.getDataArray("nodim").appendDataFrameDimension(DF, 0u); }); add("DataArray::deleteDimensions", [](File &f) { A.deleteDimensions(); });
    add("DataArray::addSource", [](File &f) { B.getDataArray("arr2").addSource(SO); }); add("DataArray::removeSource", [](File &f) { A.removeSource(SO); }); add("DataArray::sources-vector", [](File &f) { A.sources(std::vector<Source>{SO}); }); add("DataArray::sources-empty-vector", [](File &f) { A.sources(std::vector<Source>{}); });
    add("DataArray::metadata", [](File &f) { A.metadata(S); }); add("DataArray::metadata-none", [](File &f) { A.metadata(nix::none); }); add("DataArray::type", [](File &f) { A.type("other"); }); add("DataArray::definition-none", [](File &f) { A.definition(nix::none); });
    add("SampledDimension::label", [](File &f) { A.getDimension(1).asSampledDimension().label("other"); }); add("SampledDimension::label-none", [](File &f) { A.getDimension(1).asSampledDimension().label(nix::none); }); add("SampledDimension::unit", [](File &f) { A.getDimension(1).asSampledDimension().unit("s"); }); add("SampledDimension::unit-none", [](File &f) { A.getDimension(1).asSampledDimension().unit(nix::none); });
    add("SampledDimension::samplingInterval", [](File &f) { A.getDimension(1).asSampledDimension().samplingInterval(2.0); }); add("SampledDimension::offset", [](File &f) { A.getDimension(1).asSampledDimension().offset(3.0); }); add("SampledDimension::offset-none", [](File &f) { A.getDimension(1).asSampledDimension().offset(boost::none); });
    add("SetDimension::labels", [](File &f) { A.getDimension(2).asSetDimension().labels({"q"}); }); add("SetDimension::labels-none", [](File &f) { A.getDimension(2).asSetDimension().labels(boost::none); }); add("SetDimension::label", [](File &f) { A.getDimension(2).asSetDimension().label("other"); }); add("SetDimension::label-none", [](File &f) { A.getDimension(2).asSetDimension().label(nix::none); });
    add("RangeDimension::ticks", [](File &f) { B.getDataArray("rng").getDimension(1).asRangeDimension().ticks({5.0, 6.0}); }); add("RangeDimension::label", [](File &f) { B.getDataArray("rng").getDimension(1).asRangeDimension().label("other"); }); add("RangeDimension::unit", [](File &f) { B.getDataArray("rng").getDimension(1).asRangeDimension().unit("ms"); }); add("RangeDimension::unit-none", [](File &f) { B.getDataArray("rng").getDimension(1).asRangeDimension().unit(nix::none); });
    add("DataFrame::rows", [](File &f) { DF.rows(5); }); add("DataFrame::writeRow", [](File &f) { DF.writeRow(1, {Variant(9.0), Variant("y")}); }); add("DataFrame::writeCell", [](File &f) { DF.writeCell(0, 0u, Variant(8.0)); }); add("DataFrame::writeColumn", [](File &f) { std::vector<double> v{4.0, 5.0}; DF.writeColumn(0u, v); }); add("DataFrame::removeSource", [](File &f) { DF.removeSource(SO); });
    add("Tag::position", [](File &f) { T.position({2.0, 2.0}); }); add("Tag::extent", [](File &f) { T.extent({3.0, 3.0}); }); add("Tag::extent-none", [](File &f) { T.extent(nix::none); }); add("Tag::units", [](File &f) { T.units({"s", ""}); }); add("Tag::units-none", [](File &f) { T.units(nix::none); });
    add("Tag::addReference", [](File &f) { T.addReference(B.getDataArray("rng")); }); add("Tag::removeReference", [](File &f) { T.removeReference(A); }); add("Tag::references-vector", [](File &f) { T.references(std::vector<DataArray>{A}); }); add("Tag::references-empty-vector", [](File &f) { T.references(std::vector<DataArray>{}); });
    add("Tag::createFeature", [](File &f) { T.createFeature(A, LinkType::Tagged); }); add("Tag::deleteFeature", [](File &f) { T.deleteFeature(T.getFeature(0)); }); add("Tag::addSource", [](File &f) { T.addSource(B.getSource("src2")); }); add("Tag::removeSource", [](File &f) { T.removeSource(SO); }); add("Tag::metadata-none", [](File &f) { T.metadata(nix::none); });
    add("Feature::linkType", [](File &f) { T.getFeature(0).linkType(LinkType::Tagged); }); add("Feature::data", [](File &f) { T.getFeature(0).data(A); });
    add("MultiTag::positions", [](File &f) { MT.extents(nix::none); MT.positions(B.getDataArray("pos2")); }); add("MultiTag::extents-none", [](File &f) { MT.extents(nix::none); }); add("MultiTag::units", [](File &f) { MT.units({"s"}); }); add("MultiTag::addReference", [](File &f) { MT.addReference(B.getDataArray("arr2")); }); add("MultiTag::removeReference", [](File &f) { MT.removeReference(A); });
    add("MultiTag::references-empty-vector", [](File &f) { MT.references(std::vector<DataArray>{}); }); add("MultiTag::createFeature", [](File &f) { MT.createFeature(A, LinkType::Tagged); }); add("MultiTag::deleteFeature", [](File &f) { MT.deleteFeature(MT.getFeature((size_t)0)); });
    add("Group::addDataArray", [](File &f) { G.addDataArray(B.getDataArray("arr2")); }); add("Group::removeDataArray", [](File &f) { G.removeDataArray(A); }); add("Group::dataArrays-empty-vector", [](File &f) { G.dataArrays(std::vector<DataArray>{}); }); add("Group::addTag", [](File &f) { G.addTag(B.getTag("tag2")); }); add("Group::removeTag", [](File &f) { G.removeTag(T); });
    add("Group::tags-empty-vector", [](File &f) { G.tags(std::vector<Tag>{}); }); add("Group::removeMultiTag", [](File &f) { G.removeMultiTag(MT); }); add("Group::multiTags-empty-vector", [](File &f) { G.multiTags(std::vector<MultiTag>{}); }); add("Group::removeDataFrame", [](File &f) { G.removeDataFrame(DF); }); add("Group::dataFrames-empty-vector", [](File &f) { G.dataFrames(std::vector<DataFrame>{}); });
    add("Source::createSource", [](File &f) { SO.createSource("new", "t"); }); add("Source::deleteSource", [](File &f) { SO.deleteSource("child"); }); add("Source::definition", [](File &f) { SO.definition("other"); }); add("Source::type", [](File &f) { SO.type("other"); }); add("Source::metadata-none", [](File &f) { SO.metadata(nix::none); });
    add("Section::createSection", [](File &f) { S.createSection("new", "t"); }); add("Section::deleteSection", [](File &f) { S.deleteSection("sub"); }); add("Section::createProperty", [](File &f) { S.createProperty("new", Variant(1.0)); }); add("Section::deleteProperty", [](File &f) { S.deleteProperty("prop"); });
    add("Section::repository", [](File &f) { S.repository("http://other"); }); add("Section::repository-none", [](File &f) { S.repository(boost::none); }); add("Section::link", [](File &f) { S.link(S.getSection("sub")); }); add("Section::link-none", [](File &f) { S.link(boost::none); }); add("Section::definition", [](File &f) { S.definition("other"); }); add("Section::type", [](File &f) { S.type("other"); });
    add("Property::values", [](File &f) { P.values({Variant(9.5)}); }); add("Property::values-none", [](File &f) { P.values(nix::none); }); add("Property::deleteValues", [](File &f) { P.deleteValues(); }); add("Property::unit", [](File &f) { P.unit("s"); }); add("Property::unit-none", [](File &f) { P.unit(nix::none); });
    add("Property::uncertainty", [](File &f) { P.uncertainty(9.0); }); add("Property::uncertainty-none", [](File &f) { P.uncertainty(nix::none); }); add("Property::definition", [](File &f) { P.definition("other"); }); add("Property::definition-none", [](File &f) { P.definition(nix::none); });
#undef B
#undef A
#undef S
#undef T
#undef MT
#undef G
#undef SO
#undef DF
#undef P
    return M;
}

// runs one mutator attempt in a forked child (a hanging or crashing attempt must not take the others with it)
// returns 0 = threw (as required), 1 = returned without exception, 2 = hang, 3 = crash
int attempt(File &f, const Mut &m, int timeout_s, std::string &what) {
    fflush(nullptr); pid_t pid = fork();
    if (pid == 0) {
        int code = 1; try { m.call(f); } catch (std::exception &e) { code = 0; } catch (...) { code = 0; }
        _exit(code);
    }
    for (int waited = 0;; waited++) {
        int st; pid_t r = waitpid(pid, &st, WNOHANG);
        if (r == pid) { if (WIFEXITED(st) && WEXITSTATUS(st) <= 1) return WEXITSTATUS(st); what = WIFSIGNALED(st) ? "signal " + str(WTERMSIG(st)) : "exit " + str(WEXITSTATUS(st)); return 3; }
        if (waited > timeout_s * 200) { kill(pid, SIGKILL); waitpid(pid, &st, 0); return 2; }
        struct timespec ts = {0, 5000000}; nanosleep(&ts, nullptr);
    }
}

void marker(const char *m) { std::string p = std::string("/VERIF-MARK-") + m; (void)access(p.c_str(), F_OK); }   // visible to strace

void ro_case(Ctx &c, bool surface_table, bool holder = false) {
    Rng &r = c.rng; Graph g(c); g.hostile_pct = 15; g.create(c.path("c09.nix"));
    g.grow((int)r.range(10, 40)); build_rich(g.f);   // random content first, then one of everything (the surface table addresses the latter by name)
    Observer o0; ONode t0 = o0.file(g.f); g.close();
    std::string before = file_bytes(g.path); struct stat sb; stat(g.path.c_str(), &sb);
    c.fp("RO" + str(surface_table) + str(holder)); c.count("file_bytes", (long)before.size());
    advance_clock(5);
    // holder: the same process keeps an (idle) ReadWrite session on the file while the ReadOnly session runs. HDF5 shares one file
    // structure per process, so the ReadOnly handle inherits write access - known finding D30; keys under C09/beside-ReadWrite-holder/
    File hold; if (holder) { c.op("open ReadWrite holder (idle)"); hold = File::open(g.path, FileMode::ReadWrite); c.count("ro_sessions_beside_rw_holder"); }
    const std::string HK = "C09/beside-ReadWrite-holder/";
    marker("ro-begin");
    c.op(holder ? "open ReadOnly beside-ReadWrite-holder" : "open ReadOnly");
    g.open(FileMode::ReadOnly);
    Observer o1; ONode t1 = o1.file(g.f); std::string d = tree_diff(t0, t1);
    c.check(d.empty(), "C09/readonly/tree-differs", d);
    if (surface_table) {
        std::vector<Mut> M = surface(); c.counters["surface_size"] = (long)M.size();
        for (auto &m : M) {
            c.op("ro-mutator " + m.name); std::string what;
            int res = attempt(g.f, m, 10, what);
            c.check(res == 0, (holder && res == 1) ? HK + "ro-mutator-accepted/" + m.name : "C09/ro-mutator/" + std::string(res == 1 ? "accepted" : res == 2 ? "hang" : "crash") + "/" + m.name, [&] { return "mutating call " + m.name + " on a ReadOnly file " + (res == 1 ? "returned without an exception" : res == 2 ? "did not return within 10 s" : "crashed (" + what + ")"); });
            c.count("ro_mutator_attempts");
        }
    } else { for (int i = 0; i < 10; i++) g.step(); }   // random mutators in-process (their exceptions are swallowed by the engine)
    // What the ReadOnly session itself reads after its refused mutators is observed but not judged (FA17): HDF5 copies the value of a refused
    // H5Awrite into its in-memory attribute before it fails, so the session can read back a value that never reaches the file. The property
    // speaks about the bytes of the file and about the exception, both of which are judged.
    Observer o2; ONode t2 = o2.file(g.f); std::string d2 = tree_diff(t0, t2); if (!d2.empty()) { c.count("observation:session-view-differs-after-refused-mutators"); if (holder) c.check(false, HK + "tree-changed-by-session", d2); } else c.check(true, "", "");
    g.close(); if (holder) hold.close();
    marker("ro-end");
    std::string after = file_bytes(g.path);
    c.check(after == before, holder ? HK + "bytes-changed" : "C09/readonly/bytes-changed", [&] { size_t i = 0; while (i < after.size() && i < before.size() && after[i] == before[i]) i++; return "file bytes differ after a ReadOnly session: size " + str(before.size()) + " -> " + str(after.size()) + ", first difference at offset " + str(i); });
    struct stat sa; stat(g.path.c_str(), &sa); c.check(sa.st_mtime == sb.st_mtime && sa.st_size == sb.st_size, holder ? HK + "mtime-or-size-changed" : "C09/readonly/mtime-or-size-changed", "mtime or size of the file changed");
}

void rw_case(Ctx &c) {
    Rng &r = c.rng; Graph g(c); g.create(c.path("c09.nix")); build_rich(g.f); g.grow((int)r.range(10, 40)); c.fp("RW");
    ObsOpts oo; oo.updated_at = true;   // an idle ReadWrite session must not even touch the modification stamps
    Observer o0(oo); ONode t0 = o0.file(g.f); g.close();
    for (int k = 0; k < 2; k++) {
        advance_clock(3);
        c.op(k == 0 ? "open ReadWrite + close (idle)" : "open ReadWrite + observe + close");
        g.open(FileMode::ReadWrite); if (k == 1) { Observer ox(oo); (void)ox.file(g.f); } g.close();
        advance_clock(3);
        g.open(FileMode::ReadOnly); Observer o1(oo); ONode t1 = o1.file(g.f); g.close();
        std::string d = tree_diff(t0, t1); c.check(d.empty(), std::string("C09/readwrite/content-changed/") + (k == 0 ? "idle" : "observed"), d);
    }
    // ReadWrite on an absent path creates a valid empty file; ReadOnly on an absent path is refused
    std::string np = c.path("absent.nix");
    c.op("open ReadOnly absent"); bool threw = false; try { File x = File::open(np, FileMode::ReadOnly); } catch (std::exception &) { threw = true; }
    struct stat st; c.check(threw && stat(np.c_str(), &st) != 0, "C09/readonly/absent-path-accepted", "ReadOnly open of a non-existent path did not throw or created the file");
    c.op("open ReadWrite absent"); try { File x = File::open(np, FileMode::ReadWrite); c.check(x.isOpen() && x.blockCount() == 0 && x.sectionCount() == 0 && x.validate().getErrors().empty() && util::looksLikeUUID(x.id()), "C09/readwrite/absent-path", "ReadWrite on an absent path did not give an empty valid file"); x.createBlock("b", "t"); x.close(); } catch (std::exception &e) { c.check(false, "C09/readwrite/absent-path", e.what()); }
    // Overwrite on existing and absent paths: empty, valid
    for (const std::string &p : {g.path, np, c.path("absent2.nix")}) {
        c.op("open Overwrite"); try { File x = File::open(p, FileMode::Overwrite); c.check(x.blockCount() == 0 && x.sectionCount() == 0 && x.format() == "nix" && util::looksLikeUUID(x.id()) && x.validate().getErrors().empty(), "C09/overwrite/not-empty-or-invalid", "Overwrite did not yield an empty valid NIX file"); x.close();
            File y = File::open(p, FileMode::ReadOnly); c.check(y.blockCount() == 0 && y.sectionCount() == 0, "C09/overwrite/not-empty-after-reopen", "content survived Overwrite"); y.close(); }
        catch (std::exception &e) { c.check(false, "C09/overwrite/threw", e.what()); }
    }
}

// header defects injected through the HDF5 C API / plain file I/O
void defect_case(Ctx &c) {
    c.fp("D");
    struct Def { std::string name; std::function<void(const std::string &)> make; };
    auto nixfile = [](const std::string &p) { File f = File::open(p, FileMode::Overwrite); f.createBlock("b", "t"); f.close(); };
    auto del_attr = [](const std::string &p, const char *a) { hid_t f = H5Fopen(p.c_str(), H5F_ACC_RDWR, H5P_DEFAULT); H5Adelete(f, a); H5Fclose(f); };
    std::vector<Def> defs = {
        {"format-missing", [&](const std::string &p) { nixfile(p); del_attr(p, "format"); }},
        {"format-wrong", [&](const std::string &p) { nixfile(p); del_attr(p, "format"); hid_t f = H5Fopen(p.c_str(), H5F_ACC_RDWR, H5P_DEFAULT); hid_t t = H5Tcopy(H5T_C_S1); H5Tset_size(t, H5T_VARIABLE); hid_t s = H5Screate(H5S_SCALAR); hid_t a = H5Acreate2(f, "format", t, s, H5P_DEFAULT, H5P_DEFAULT); const char *v = "xin"; H5Awrite(a, t, &v); H5Aclose(a); H5Sclose(s); H5Tclose(t); H5Fclose(f); }},
        {"version-missing", [&](const std::string &p) { nixfile(p); del_attr(p, "version"); }},
        {"version-wrong-rank", [&](const std::string &p) { nixfile(p); del_attr(p, "version"); hid_t f = H5Fopen(p.c_str(), H5F_ACC_RDWR, H5P_DEFAULT); hsize_t n = 2; hid_t s = H5Screate_simple(1, &n, nullptr); hid_t a = H5Acreate2(f, "version", H5T_NATIVE_INT, s, H5P_DEFAULT, H5P_DEFAULT); int v[2] = {1, 2}; H5Awrite(a, H5T_NATIVE_INT, v); H5Aclose(a); H5Sclose(s); H5Fclose(f); }},
        {"id-missing", [&](const std::string &p) { nixfile(p); del_attr(p, "id"); }},
        {"plain-hdf5", [&](const std::string &p) { hid_t f = H5Fcreate(p.c_str(), H5F_ACC_TRUNC, H5P_DEFAULT, H5P_DEFAULT); hid_t g = H5Gcreate2(f, "data", H5P_DEFAULT, H5P_DEFAULT, H5P_DEFAULT); H5Gclose(g); H5Fclose(f); }},
        {"zero-length", [&](const std::string &p) { std::ofstream o(p, std::ios::binary | std::ios::trunc); }},
        {"text-file", [&](const std::string &p) { std::ofstream o(p, std::ios::binary | std::ios::trunc); o << "this is not an hdf5 file\n" << std::string(4096, 'x'); }},
        {"truncated-nix", [&](const std::string &p) { nixfile(p); std::string b = file_bytes(p); std::ofstream o(p, std::ios::binary | std::ios::trunc); o.write(b.data(), (std::streamsize)(b.size() / 3)); }},
    };
    std::string p = c.path("defect.nix");
    for (auto &d : defs) for (int mode = 0; mode < 3; mode++) {
        unlink(p.c_str()); d.make(p); std::string before = file_bytes(p);
        FileMode fm = mode == 0 ? FileMode::ReadOnly : mode == 1 ? FileMode::ReadWrite : FileMode::Overwrite; const char *mn = mode == 0 ? "ReadOnly" : mode == 1 ? "ReadWrite" : "Overwrite";
        c.op(std::string("open ") + mn + " defect " + d.name);
        bool opened = false, usable = false; std::string exc;
        try { File f = File::open(p, fm); opened = f.isOpen(); if (opened) { try { f.createBlock("probe", "t"); usable = f.hasBlock("probe"); } catch (...) { try { (void)f.blockCount(); usable = true; } catch (...) {} } f.close(); } } catch (std::exception &e) { exc = e.what(); }
        if (mode < 2) {
            c.check(!opened, std::string("C09/defect-accepted/") + mn + "/" + d.name, [&] { return std::string("a file with defect '") + d.name + "' was opened in " + mn + " mode" + (usable ? " and is usable" : ""); });
            if (mode == 0) c.check(file_bytes(p) == before, "C09/readonly/bytes-changed/defect-" + d.name, "a refused ReadOnly open changed the file (size " + str(before.size()) + " -> " + str(file_bytes(p).size()) + ")");
        } else {
            bool ok = false; try { File f = File::open(p, FileMode::ReadOnly); ok = f.blockCount() <= 1 && f.sectionCount() == 0 && f.format() == "nix"; f.close(); } catch (...) {}
            c.check(opened && ok, std::string("C09/overwrite/defect-not-replaced/") + d.name, "Overwrite on a defective file did not yield a valid NIX file: " + exc);
        }
        c.count("defect_opens");
    }
    // a path that names no file - a plain missing name, a name in a missing directory, a symbolic link whose target does not exist -
    // is refused in ReadOnly mode and nothing is created, not the link's target either
    for (int k = 0; k < 3; k++) {
        std::string target = c.path("absent-target.nix"), q = k == 0 ? c.path("absent.nix") : k == 1 ? c.path("no-such-dir") + "/x.nix" : c.path("dangling.lnk"); const char *kn = k == 0 ? "missing-path" : k == 1 ? "missing-directory" : "dangling-symlink";
        unlink(target.c_str()); unlink(q.c_str()); if (k == 2 && symlink(target.c_str(), q.c_str()) != 0) continue;
        c.op(std::string("open ReadOnly ") + kn);
        bool opened = false, usable = false; try { File f = File::open(q, FileMode::ReadOnly); opened = f.isOpen(); if (opened) { try { f.createBlock("probe", "t"); usable = f.hasBlock("probe"); } catch (...) {} f.close(); } } catch (std::exception &) {}
        c.check(!opened, std::string("C09/defect-accepted/ReadOnly/") + kn, [&] { return std::string("ReadOnly open of a ") + kn + " returned a File" + (usable ? " that accepts createBlock" : ""); });
        struct stat st; bool created = stat(target.c_str(), &st) == 0 || (k != 2 && stat(q.c_str(), &st) == 0);
        c.check(!created, std::string("C09/readonly/created-a-file/") + kn, "a ReadOnly open of a path without a file created one");
        unlink(q.c_str()); unlink(target.c_str()); c.count("defect_opens");
    }
}

void run_case(Ctx &c) {
    int kind = (int)(c.index % 8);
    bool holder = (c.index / 8) % 4 == 3;   // a quarter of the ReadOnly sessions run beside a ReadWrite session of the same process
    if (kind <= 2) ro_case(c, true, holder); else if (kind <= 4) ro_case(c, false, holder); else if (kind <= 6) rw_case(c); else defect_case(c);
    c.nontrivial = c.checks > 5;
}
long ncases(const std::string &tier) { return tier == "quick" ? 64 : 960; }
std::vector<std::string> witnesses() { return {"ro-surface", "d30-ro-beside-rw-holder"}; }
void run_witness(Ctx &c, const std::string &name) { if (name == "ro-surface") ro_case(c, true); else if (name == "d30-ro-beside-rw-holder") { ro_case(c, true, true); } c.nontrivial = true; }
Reg reg({"C09", ncases, run_case, witnesses, run_witness, 400});
}  // namespace
