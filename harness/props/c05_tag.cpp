// C05 - Tag retrieval returns exactly the tagged region.
#include "core/core.hpp"
#include "core/retrieval.hpp"
using namespace vm;
using namespace nix;


namespace {

struct TagSpec { std::vector<double> pos, ext; bool has_ext = false; std::vector<std::string> units; std::vector<double> factor; std::string cls; };

TagSpec gen_tag(Ctx &c, const RArray &A, bool use_units) {
    Rng &r = c.rng; TagSpec t; size_t R = A.rank();
    size_t np = R; int k = (int)r.weighted({6, 2, 1});
    if (k == 1 && R > 1) np = 1 + r.u(R - 1); else if (k == 2) np = R + 1 + r.u(2);
    t.has_ext = r.chance(0.75);
    t.cls = np < R ? "fewer" : (np > R ? "more" : "full");
    size_t ulen = (use_units && np >= 2 && r.chance(0.3)) ? 1 + r.u(np - 1) : np;   // units for the first entries only: the others default to their own dimension's unit
    for (size_t d = 0; d < np; d++) {
        if (d >= R) { t.pos.push_back((double)r.range(0, 3)); t.ext.push_back((double)r.range(0, 3)); if (use_units && d < ulen) t.units.push_back("none"); t.factor.push_back(1.0); continue; }
        const Axis &ax = A.ax[d]; long n = A.shape[d]; std::string c1, c2;
        long i = r.chance(0.12) ? (r.chance(0.5) ? -1 - (long)r.u(2) : n + (long)r.u(2)) : (long)r.u(n);
        long j = i + (long)r.u(std::max(1L, n - i + (r.chance(0.15) ? 2 : 0)));
        double p = gen_position(ax, n, i, r, c1), q = gen_position(ax, n, j, r, c2);
        double f = 1.0; std::string u = "none";
        if (use_units && !ax.unit.empty() && d < ulen) {
            static const char *pre[] = {"", "m", "k", "u"}; std::string base = ax.unit.substr(ax.unit.size() - 1);
            u = std::string(r.pick(pre)) + base; f = util::getSIScaling(u, ax.unit);
            p = p / f; q = q / f;
        }
        double e;
        int ek = (int)r.weighted({8, 1, 1});
        if (ek == 0) e = q - p; else if (ek == 1) e = 0.0; else e = -(std::fabs(q - p) + 0.5);
        t.pos.push_back(p); t.ext.push_back(e); if (use_units && d < ulen) t.units.push_back(u); t.factor.push_back(f);
        if (d == 0) t.cls += "/" + c1 + (ek == 1 ? "/zero" : (ek == 2 ? "/negative" : "/" + c2));
    }
    if (!t.has_ext) t.ext.clear();
    if (ulen < np) t.cls += "/units-prefix";
    return t;
}

std::string spec_show(const TagSpec &t) {
    std::string s = "pos=" + dshow(t.pos) + " ext=" + (t.has_ext ? dshow(t.ext) : std::string("none"));
    if (!t.units.empty()) { s += " units=["; for (auto &u : t.units) s += u + ","; s += "]"; }
    return s;
}

// judge one retrieval; handles the more-entries-than-dimensions and the known D6 classes
void judge(Ctx &c, const RArray &A, const TagSpec &t, RangeMatch m, const Got &g, const std::string &entry) {
    size_t R = A.rank(); std::string mode = rm_name(m);
    Box want = tag_box(A, t.pos, t.ext, t.has_ext, t.factor, m, 0);
    std::string d = compare_box(A, want, g);
    if (t.pos.size() > R) {   // not specified by the property: box on the first `rank` entries or an error
        if (g.threw) { c.count("unjudged:more-entries-exception"); return; }
        c.check(d.empty(), "C05/box/more-entries/" + mode + "/" + entry, [&] { return d + " | " + A.describe() + spec_show(t); });
        return;
    }
    if (t.pos.size() < R) {
        if (d.empty()) { c.check(true, "", ""); return; }
        // explained by the known padding defect?
        Box d6 = tag_box(A, t.pos, t.ext, t.has_ext, t.factor, m, 1);
        bool explained = compare_box(A, d6, g).empty();
        c.check(false, explained ? "C05/box/unspecified-dims/d6-padding" : "C05/box/unspecified-dims/other/" + mode + "/" + entry,
                [&] { return d + " | " + A.describe() + spec_show(t) + " mode=" + mode + (explained ? " [equals the position-as-extent padding of D6]" : ""); });
        return;
    }
    std::string key = "C05/box/" + std::string(want.oob ? "expect-oob" : "expect-data") + "/" + mode + "/" + entry + (t.units.empty() ? "" : "/units");
    c.check(d.empty(), key, [&] { return d + " | " + A.describe() + spec_show(t) + " mode=" + mode + " class=" + t.cls; });
}

void run_case(Ctx &c) {
    Rng &r = c.rng;
    File f = File::open(c.path("c05.nix"), FileMode::Overwrite);
    Block b = f.createBlock("b", "t");
    int narr = c.quick() ? 3 : 5, ntags = c.quick() ? 14 : 24;
    for (int ai = 0; ai < narr; ai++) {
        size_t R = 1 + r.weighted({4, 4, 3});
        bool use_units = r.chance(0.35);
        RArrayOpts o; o.units = use_units; o.odd_ticks = true; o.max_extent = R == 3 ? 6 : 9;
        c.op("make-array rank" + str(R));
        RArray A = make_rarray(c, b, "a" + str(ai), R, o);
        bool fa_like = r.chance(0.5);
        RArray FA = fa_like ? make_rarray_like(c, b, "feat" + str(ai), A) : make_rarray(c, b, "feat" + str(ai), R, o);   // feature array: same descriptors as the reference, or its own
        c.fp("R" + str(R) + (use_units ? "u" : ""));
        for (auto &ax : A.ax) c.fp(ax.kname());
        for (int ti = 0; ti < ntags; ti++) {
            TagSpec t = gen_tag(c, A, use_units);
            c.op("createTag " + t.cls + " | " + spec_show(t));
            Tag tg = b.createTag("t" + str(ai) + "_" + str(ti), "t", t.pos);
            if (t.has_ext) tg.extent(t.ext);
            if (!t.units.empty()) tg.units(t.units);
            tg.addReference(A.da);
            c.count("tags"); c.count("entries:" + t.cls.substr(0, t.cls.find('/')));
            for (RangeMatch m : {RangeMatch::Inclusive, RangeMatch::Exclusive}) {
                c.op(std::string("taggedData ") + rm_name(m) + " " + t.cls);
                judge(c, A, t, m, retrieve([&] { return util::taggedData(tg, A.da, m); }), "taggedData-array");
                int ep = (int)r.u(4);
                if (ep == 0) { c.op(std::string("taggedData-refindex ") + rm_name(m)); judge(c, A, t, m, retrieve([&] { return util::taggedData(tg, 0, m); }), "taggedData-index"); }
                else if (ep == 1) { c.op(std::string("retrieveData ") + rm_name(m)); judge(c, A, t, m, retrieve([&] { return util::retrieveData(tg, A.da, m); }), "retrieveData"); }
                else if (ep == 2 && t.pos.size() == R) {
                    // getOffsetAndCount: offset/count of the box (no bounds check of its own)
                    Box want = tag_box(A, t.pos, t.ext, t.has_ext, t.factor, m, 0);
                    c.op(std::string("getOffsetAndCount ") + rm_name(m));
                    NDSize off, cnt; bool threw = false; try { util::getOffsetAndCount(tg, A.da, off, cnt, m); } catch (std::exception &) { threw = true; }
                    if (!want.oob) { bool ok = !threw && off.size() == R && cnt.size() == R; for (size_t d = 0; ok && d < R; d++) ok = (long)off[d] == want.lo[d] && (long)cnt[d] == want.hi[d] - want.lo[d] + 1;
                        c.check(ok, std::string("C05/offset-count/") + rm_name(m), [&] { return "getOffsetAndCount gave off=" + (threw ? std::string("<exception>") : vshow(from_nd(off))) + " cnt=" + (threw ? "" : vshow(from_nd(cnt))) + " expected box " + box_show(want) + " | " + A.describe() + spec_show(t); }); }
                }
            }
            // member entry points use the default mode (Exclusive)
            if (r.chance(0.5)) { c.op("Tag::taggedData-default " + t.cls); bool byname = r.chance(0.5); judge(c, A, t, RangeMatch::Exclusive, retrieve([&] { return byname ? tg.taggedData(A.da.name()) : tg.taggedData(0); }), "member-default"); }
            // features: tagged ones are cut by the same rule on the feature array, untagged / indexed are whole
            if (r.chance(0.4)) {
                LinkType lt = r.pick(std::vector<LinkType>{LinkType::Tagged, LinkType::Untagged, LinkType::Indexed});
                c.op("createFeature " + link_type_to_string(lt));
                Feature ft = tg.createFeature(FA.da, lt);
                RangeMatch m = r.chance(0.5) ? RangeMatch::Inclusive : RangeMatch::Exclusive;
                c.op(std::string("featureData ") + link_type_to_string(lt) + " " + rm_name(m));
                Got g = retrieve([&] { return r.chance(0.5) ? util::featureData(tg, 0, m) : util::featureData(tg, ft, m); });
                if (lt == LinkType::Tagged) {
                    // the tag's units refer to A's axes; on the feature array only unit-less tags are judged
                    if (t.units.empty() || !use_units || fa_like) {
                        TagSpec tf = t; if (!fa_like) tf.factor.assign(t.pos.size(), 1.0);
                        bool units_clash = false; if (!fa_like) for (size_t d = 0; d < FA.rank() && d < t.pos.size(); d++) if (!t.units.empty() && t.units[d] != "none") units_clash = true;
                        if (!units_clash) {
                            Box want = tag_box(FA, tf.pos, tf.ext, tf.has_ext, tf.factor, m, 0); std::string d = compare_box(FA, want, g);
                            if (t.pos.size() == FA.rank()) c.check(d.empty(), std::string("C05/feature/tagged/") + rm_name(m), [&] { return d + " | feature array " + FA.describe() + spec_show(t); });
                            else if (t.pos.size() < FA.rank() && !d.empty()) { Box d6 = tag_box(FA, tf.pos, tf.ext, tf.has_ext, tf.factor, m, 1); bool ex = compare_box(FA, d6, g).empty(); c.check(false, ex ? "C05/box/unspecified-dims/d6-padding" : "C05/feature/tagged/unspecified-dims/other", d + " | feature array " + FA.describe() + spec_show(t)); }
                        }
                    }
                } else {
                    Box whole; whole.lo.assign(FA.rank(), 0); whole.hi = FA.shape; for (auto &h : whole.hi) h -= 1;
                    std::string d = compare_box(FA, whole, g);
                    c.check(d.empty(), "C05/feature/" + link_type_to_string(lt) + "-whole", [&] { return d + " | " + FA.describe(); });
                }
                tg.deleteFeature(ft);
            }
        }
    }
    c.nontrivial = c.checks > 20;
    f.close();
}

long ncases(const std::string &tier) { return tier == "quick" ? 160 : 4000; }
std::vector<std::string> witnesses() { return {"d6-unspecified-dims"}; }
void run_witness(Ctx &c, const std::string &name) {
    File f = File::open(c.path("w.nix"), FileMode::Overwrite); Block b = f.createBlock("b", "t");
    if (name == "d6-unspecified-dims") {
        // 2-D array 4x5, second dimension not specified by the tag. (a) sampled axis with offset 1: the padding
        // [x0, x0 + x_last] overshoots -> OutOfBounds instead of the full dimension; (b) Exclusive mode drops the last element
        RArray A; A.shape = {4, 5}; A.da = b.createDataArray("a", "t", DataType::Double, NDSize{4, 5});
        std::vector<double> lin(20); for (int i = 0; i < 20; i++) lin[i] = i; A.da.setData(DataType::Double, lin.data(), NDSize{4, 5}, NDSize{0, 0});
        Axis a0; a0.kind = Axis::Sampled; a0.dt = 1.0; a0.off = 0.0; Axis a1 = a0; a1.off = 1.0;
        A.da.appendSampledDimension(1.0); A.da.appendSampledDimension(1.0, "", "", 1.0); A.ax = {a0, a1};
        TagSpec t; t.pos = {1.0}; t.ext = {2.0}; t.has_ext = true; t.factor = {1.0}; t.cls = "fewer";
        Tag tg = b.createTag("t", "t", t.pos); tg.extent(t.ext); tg.addReference(A.da);
        for (RangeMatch m : {RangeMatch::Inclusive, RangeMatch::Exclusive}) { c.op(std::string("taggedData ") + rm_name(m) + " fewer"); judge(c, A, t, m, retrieve([&] { return util::taggedData(tg, A.da, m); }), "taggedData-array"); }
    }
    c.nontrivial = true; f.close();
}
Reg reg({"C05", ncases, run_case, witnesses, run_witness, 120});
}  // namespace
