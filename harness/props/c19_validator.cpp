// C19 - the validator accepts every rule-conforming file and flags every hard-rule breach; soft breaches are warnings only.
#include "core/core.hpp"
#include "core/graph.hpp"
#include <hdf5.h>
using namespace vm;
using namespace nix;

namespace {
struct Arr { DataArray a; std::string block; std::vector<long> shape; std::vector<int> kinds; std::vector<std::string> units; bool all_units = true; bool alias = false; };   // kinds: 0 sampled 1 range 2 set 3 frame 4 alias range
struct Breach { std::string name, entity_id; bool hard; bool dim_level; std::function<void()> h5_inject; };

struct Gen {
    Ctx &c; Rng &r; File f; std::string path; std::vector<Arr> arrays; std::vector<Tag> tags; std::vector<MultiTag> mtags; std::vector<size_t> tag_arr, mtag_arr; long serial = 0;
    Gen(Ctx &cx) : c(cx), r(cx.rng) {}
    std::string nm(const char *p) { return std::string(p) + str(serial++); }

    Arr make_array(Block &b, size_t R, bool with_units) {
        Arr A; A.block = b.name(); A.shape.resize(R); for (auto &e : A.shape) e = 2 + (long)r.u(4);
        A.a = b.createDataArray(nm("arr"), "nix.array", r.chance(0.5) ? DataType::Double : DataType::Int32, to_nd(A.shape));
        static const char *su[] = {"s", "ms", "us"}; static const char *ru[] = {"V", "mV", "uV"};
        if (R == 1 && r.chance(0.25)) {   // the array is its own axis: alias range dimension over sorted data, unit and label are the array's
            std::vector<double> v; double x = (double)r.range(-3, 3); for (long i = 0; i < A.shape[0]; i++) { v.push_back(x); x += (double)(1 + r.u(4)); }
            A.a.setData(DataType::Double, v.data(), to_nd(A.shape), NDSize{0}); A.a.unit("mV"); A.a.label("signal"); A.a.appendAliasRangeDimension(); A.kinds.push_back(4); A.units.push_back("mV"); A.alias = true;
            if (r.chance(0.3)) { A.a.polynomCoefficients({1.0, 2.0}); A.a.expansionOrigin(0.5); }
            return A;
        }
        for (size_t d = 0; d < R; d++) {
            long n = A.shape[d]; int k = with_units ? (int)r.u(2) : (int)r.weighted({3, 3, 3, 2});
            if (k == 0) { std::string u = r.pick(su); SampledDimension sd = A.a.appendSampledDimension(0.25 + r.real(), "time", u); if (r.chance(0.4)) sd.offset((double)r.range(-3, 3)); A.units.push_back(u); }
            else if (k == 1) { std::vector<double> t; double x = r.real(); for (long i = 0; i < n; i++) { t.push_back(x); x += r.chance(0.12) ? 0.0 : 0.5 + r.real(); /* equal neighbours are sorted too (the tick setter and is_sorted accept them) */ } std::string u = r.pick(ru); A.a.appendRangeDimension(t, "volt", u); A.units.push_back(u); }
            else if (k == 2) { std::vector<std::string> l; if (r.chance(0.6)) for (long i = 0; i < n; i++) l.push_back("l" + str(i)); A.a.appendSetDimension(l); A.units.push_back(""); A.all_units = false; }
            else { DataFrame df = b.createDataFrame(nm("frame"), "nix.frame", {{"name", "", DataType::String}, {"v", "mV", DataType::Double}}); df.rows((ndsize_t)n); if (r.chance(0.5)) A.a.appendDataFrameDimension(df); else A.a.appendDataFrameDimension(df, 0u); A.units.push_back(""); A.all_units = false; }
            A.kinds.push_back(k);
        }
        if (r.chance(0.5)) A.a.unit(r.chance(0.5) ? "mV" : "mV/s"); if (r.chance(0.3)) { A.a.polynomCoefficients({1.0, 2.0}); A.a.expansionOrigin(0.5); }
        return A;
    }
    void build() {
        path = c.path("c19.nix"); f = File::open(path, FileMode::Overwrite);
        int nb = 1 + (int)r.u(3);
        for (int bi = 0; bi < nb; bi++) {
            Block b = f.createBlock(nm("block"), "nix.block");
            int na = 2 + (int)r.u(3); std::vector<size_t> mine;
            for (int i = 0; i < na; i++) { bool wu = r.chance(0.5); arrays.push_back(make_array(b, 1 + r.u(3), wu)); mine.push_back(arrays.size() - 1); }
            Source so = b.createSource(nm("src"), "nix.source"); so.createSource(nm("src"), "nix.source");
            int nt = 1 + (int)r.u(3);
            for (int i = 0; i < nt; i++) {   // tags: units only when every dimension of the referenced array carries a unit (strictest reading)
                size_t ai = mine[r.u(mine.size())]; Arr &A = arrays[ai]; size_t R = A.shape.size(); std::vector<double> p(R, 0.5), e(R, 1.0);
                Tag t = b.createTag(nm("tag"), "nix.tag", p); if (r.chance(0.6)) t.extent(e); t.addReference(A.a);
                // units: convertible to the dimension's unit where the dimension has one; a dimension without unit (set, data frame) is not compared
                // by the rule, so any valid SI unit may stand there
                if (r.chance(0.7)) { std::vector<std::string> u; static const char *pre[] = {"", "m", "k", "u"}; static const char *anyu[] = {"mV", "s", "kHz", "A"}; for (size_t d = 0; d < R; d++) { if (A.units[d].empty()) { u.push_back(r.pick(anyu)); continue; } std::string base = A.units[d].substr(A.units[d].size() - 1); u.push_back(std::string(r.pick(pre)) + base); } t.units(u); }
                if (r.chance(0.5)) { DataArray fd = b.createDataArray(nm("featdata"), "nix.array", DataType::Double, NDSize{3}); fd.appendSetDimension(); t.createFeature(fd, LinkType::Untagged); }
                if (r.chance(0.4)) t.addSource(so);
                tags.push_back(t); tag_arr.push_back(ai);
            }
            int nm_ = (int)r.u(3);
            for (int i = 0; i < nm_; i++) {
                size_t ai = mine[r.u(mine.size())]; Arr &A = arrays[ai]; size_t R = A.shape.size();
                DataArray pos = b.createDataArray(nm("positions"), "nix.positions", DataType::Double, R == 1 ? NDSize{(ndsize_t)3} : NDSize{(ndsize_t)3, (ndsize_t)R}); if (R == 1) pos.appendSetDimension(); else { pos.appendSetDimension(); pos.appendSetDimension(); }
                MultiTag mt = b.createMultiTag(nm("mtag"), "nix.mtag", pos); mt.addReference(A.a);
                if (r.chance(0.6)) { std::vector<std::string> u; static const char *anyu[] = {"mV", "s", "kHz", "A"}; for (size_t d = 0; d < R; d++) u.push_back(A.units[d].empty() ? std::string(r.pick(anyu)) : A.units[d]); mt.units(u); }
                if (r.chance(0.4)) { DataArray fd = b.createDataArray(nm("mfeat"), "nix.array", DataType::Double, NDSize{3}); fd.appendSetDimension(); mt.createFeature(fd, LinkType::Indexed); }
                mtags.push_back(mt); mtag_arr.push_back(ai);
            }
            if (r.chance(0.6)) { Group g = b.createGroup(nm("grp"), "nix.group"); g.addDataArray(arrays[mine[0]].a); }
        }
        // a block that holds nothing but a multi tag and its positions (no reference): deleting the positions leaves a block without arrays
        if (r.chance(0.4)) { Block b = f.createBlock(nm("lonely"), "nix.block"); DataArray pos = b.createDataArray(nm("positions"), "nix.positions", DataType::Double, NDSize{(ndsize_t)3}); pos.appendSetDimension(); MultiTag mt = b.createMultiTag(nm("mtag"), "nix.mtag", pos); mtags.push_back(mt); mtag_arr.push_back((size_t)-1); }
        int ns = 1 + (int)r.u(3); for (int i = 0; i < ns; i++) { Section s = f.createSection(nm("sec"), "nix.section"); Property p = s.createProperty(nm("prop"), Variant(1.5)); p.unit("mV"); if (r.chance(0.5)) { Section sub = s.createSection(nm("sec"), "nix.section"); Property q = sub.createProperty(nm("prop"), Variant("text")); q.unit("s"); } }
    }

    // one random breach; returns false if not applicable
    bool breach(bool hard, std::vector<Breach> &out) {
        if (hard) {
            int k = (int)r.u(10);
            switch (k) {
            case 0: { Arr &A = arrays[r.u(arrays.size())]; for (auto &o : out) if (o.entity_id == A.a.id()) return false;   /* a second descriptor-count change on the same array could restore the count */
                c.op("breach dimension-count | rank " + str(A.shape.size())); bool referenced = false; for (auto &tg : tags) for (auto &ref : tg.references()) if (ref.id() == A.a.id()) referenced = true; for (auto &tg : mtags) for (auto &ref : tg.references()) if (ref.id() == A.a.id()) referenced = true;
                for (auto &o : out) if (o.entity_id == A.a.id() || o.name.find("/" + A.a.name() + "/") != std::string::npos) referenced = true;   // another breach already sits on this array's descriptors
                if (r.chance(0.5) || A.shape.size() == 1 || referenced) A.a.appendSetDimension(); else {   /* (removing the descriptors of a referenced array would change what the tag-unit rule can see) */ /* one descriptor too few */ std::vector<int> ks = A.kinds; A.a.deleteDimensions(); A.a.appendSetDimension(); A.kinds.assign(1, 2); A.all_units = false; } out.push_back({"dimension-count", A.a.id(), true, false, nullptr}); return true; }
            case 1: { for (size_t t = 0; t < 8; t++) { Arr &A = arrays[r.u(arrays.size())]; if (A.a.dimensionCount() != A.shape.size()) continue; for (size_t d = 0; d < A.kinds.size(); d++) if (A.kinds[d] == 1 && r.chance(0.6)) { RangeDimension rd = A.a.getDimension(d + 1).asRangeDimension(); std::vector<double> tk = rd.ticks(); tk.push_back(tk.back() + 1.0); if (r.chance(0.5)) tk.push_back(tk.back() + 1.0); c.op("breach tick-count | dim " + str(d + 1) + " of " + str(A.kinds.size())); rd.ticks(tk); out.push_back({"tick-count/dim" + str(d + 1) + "of" + str(A.kinds.size()), A.a.id(), true, false, nullptr}); return true; } } return false; }
            case 2: { for (size_t t = 0; t < 8; t++) { Arr &A = arrays[r.u(arrays.size())]; if (A.a.dimensionCount() != A.shape.size()) continue; for (size_t d = 0; d < A.kinds.size(); d++) if (A.kinds[d] == 2 && r.chance(0.6)) { SetDimension sd = A.a.getDimension(d + 1).asSetDimension(); std::vector<std::string> l; for (long i = 0; i < A.shape[d] + 1; i++) l.push_back("x" + str(i)); c.op("breach label-count | dim " + str(d + 1) + " of " + str(A.kinds.size())); sd.labels(l); out.push_back({"label-count/dim" + str(d + 1) + "of" + str(A.kinds.size()), A.a.id(), true, false, nullptr}); return true; } } return false; }
            case 3: { for (size_t t = 0; t < 8; t++) { Arr &A = arrays[r.u(arrays.size())]; if (A.a.dimensionCount() != A.shape.size()) continue; for (size_t d = 0; d < A.kinds.size(); d++) if (A.kinds[d] == 3) { DataFrame df = A.a.getDimension(d + 1).asDataFrameDimension().data(); c.op("breach frame-rows | dim " + str(d + 1) + " of " + str(A.kinds.size())); df.rows(df.rows() + 2); out.push_back({"frame-rows/dim" + str(d + 1) + "of" + str(A.kinds.size()), A.a.id(), true, false, nullptr}); return true; } } return false; }
            case 4: case 5: {   // unsorted ticks / non-positive interval: injected through the HDF5 C API after the file is closed
                for (size_t t = 0; t < 8; t++) { Arr &A = arrays[r.u(arrays.size())]; for (size_t d = 0; d < A.kinds.size(); d++) { if (k == 4 && A.kinds[d] == 1 && A.shape[d] >= 2) {
                        std::string p = "/data/" + A.block + "/data_arrays/" + A.a.name() + "/dimensions/" + str(d + 1) + "/ticks", fp = path; long n = (long)A.a.getDimension(d + 1).asRangeDimension().ticks().size();
                        bool dup = false; for (auto &o : out) if (o.name == "unsorted-ticks:" + p) dup = true; if (dup) continue;
                        c.op("breach unsorted-ticks (HDF5 level) | dim " + str(d + 1)); out.push_back({"unsorted-ticks:" + p, "unknown", true, true, [p, fp, n] { hid_t f = H5Fopen(fp.c_str(), H5F_ACC_RDWR, H5P_DEFAULT); hid_t ds = H5Dopen2(f, p.c_str(), H5P_DEFAULT); hid_t sp = H5Dget_space(ds); long m = (long)H5Sget_simple_extent_npoints(sp); H5Sclose(sp); (void)n; std::vector<double> v((size_t)m); for (long i = 0; i < m; i++) v[(size_t)i] = (double)(m - i); H5Dwrite(ds, H5T_NATIVE_DOUBLE, H5S_ALL, H5S_ALL, H5P_DEFAULT, v.data()); H5Dclose(ds); H5Fclose(f); }}); return true; }
                    if (k == 5 && A.kinds[d] == 0) { std::string p = "/data/" + A.block + "/data_arrays/" + A.a.name() + "/dimensions/" + str(d + 1), fp = path; double bad = r.chance(0.5) ? 0.0 : -0.5;
                        bool dup = false; for (auto &o : out) if (o.name == "non-positive-interval:" + p) dup = true; if (dup) continue;
                        c.op("breach non-positive-interval (HDF5 level) | dim " + str(d + 1)); out.push_back({"non-positive-interval:" + p, "unknown", true, true, [p, fp, bad] { hid_t f = H5Fopen(fp.c_str(), H5F_ACC_RDWR, H5P_DEFAULT); hid_t g = H5Gopen2(f, p.c_str(), H5P_DEFAULT); hid_t a = H5Aopen(g, "sampling_interval", H5P_DEFAULT); H5Awrite(a, H5T_NATIVE_DOUBLE, &bad); H5Aclose(a); H5Gclose(g); H5Fclose(f); }}); return true; } } }
                return false; }
            case 6: {   // tag unit that cannot be converted, at a random dimension
                for (size_t t = 0; t < 8; t++) { if (tags.empty() && mtags.empty()) return false; bool use_m = !mtags.empty() && (tags.empty() || r.chance(0.4));
                    std::vector<std::string> u = use_m ? mtags[r.u(mtags.size())].units() : std::vector<std::string>(); size_t which = 0;
                    auto taken = [&](const std::string &id) { for (auto &o : out) if (o.entity_id == id) return true; return false; };
                    // the breached entry must face a dimension that has a unit (entries facing a set / data-frame dimension are not compared)
                    auto pick_dim = [&](const Arr &A, size_t n, size_t &which, bool &behind) { std::vector<size_t> cand; for (size_t d = 0; d < n && d < A.units.size(); d++) if (!A.units[d].empty()) cand.push_back(d); if (cand.empty()) return false; which = r.pick(cand); behind = false; for (size_t d = 0; d < which; d++) if (A.units[d].empty()) behind = true; return true; };
                    if (use_m) { size_t ti = r.u(mtags.size()); MultiTag &mt = mtags[ti]; if (taken(mt.id()) || !mt.positions() || mtag_arr[ti] == (size_t)-1) continue; u = mt.units(); if (u.empty()) continue; const Arr &A = arrays[mtag_arr[ti]]; bool behind = false; if (!pick_dim(A, u.size(), which, behind)) continue; std::string base = A.units[which].substr(A.units[which].size() - 1); u[which] = base == "V" ? "ms" : "mV"; c.op(std::string("breach tag-unit-not-convertible multi_tag") + (behind ? " behind-unitless-dimension" : "") + " | unit " + str(which + 1) + " of " + str(u.size())); mt.units(u); out.push_back({"tag-unit/unit" + str(which + 1) + "of" + str(u.size()) + (behind ? "/behind-unitless-dimension" : ""), mt.id(), true, false, nullptr}); return true; }
                    size_t ti = r.u(tags.size()); Tag &tg = tags[ti]; if (taken(tg.id())) continue; u = tg.units(); if (u.empty()) continue; const Arr &A = arrays[tag_arr[ti]]; bool behind = false; if (!pick_dim(A, u.size(), which, behind)) continue; std::string base = A.units[which].substr(A.units[which].size() - 1); u[which] = base == "V" ? "ms" : "mV"; c.op(std::string("breach tag-unit-not-convertible tag") + (behind ? " behind-unitless-dimension" : "") + " | unit " + str(which + 1) + " of " + str(u.size())); tg.units(u); out.push_back({"tag-unit/unit" + str(which + 1) + "of" + str(u.size()) + (behind ? "/behind-unitless-dimension" : ""), tg.id(), true, false, nullptr}); return true; }
                return false; }
            case 9: {   // unsorted ticks through the public API: the data of an aliased array
                for (size_t t = 0; t < 8; t++) { Arr &A = arrays[r.u(arrays.size())]; if (!A.alias || A.shape[0] < 2 || A.a.dimensionCount() != 1) continue; std::string key = "unsorted-ticks-alias:" + A.a.id(); bool dup = false; for (auto &o : out) if (o.name == key || o.entity_id == A.a.id()) dup = true; if (dup) continue;
                    std::vector<double> v; A.a.getData(v); std::swap(v[0], v[v.size() - 1]); if (std::is_sorted(v.begin(), v.end())) { v[0] = v[v.size() - 1] + 1; }
                    c.op("breach unsorted-ticks alias (array data) | n=" + str(v.size())); A.a.setData(DataType::Double, v.data(), to_nd(A.shape), NDSize{0}); out.push_back({key, "unknown", true, true, nullptr}); return true; }
                return false; }
            case 7: { if (mtags.empty()) return false; MultiTag &mt = mtags[r.u(mtags.size())]; for (auto &o : out) if (o.entity_id == mt.id()) return false; DataArray p = mt.positions(); if (!p) return false; Block b; for (auto &x : f.blocks()) if (x.hasMultiTag(mt)) b = x; c.op("breach multi-tag-without-positions"); b.deleteDataArray(p); out.push_back({"multi-tag-without-positions", mt.id(), true, false, nullptr}); return true; }
            case 8: { for (auto &x : f.blocks()) for (auto &t : x.tags()) if (t.featureCount()) { Feature ft = t.getFeature(0); DataArray d = ft.data(); if (!d) continue; Block b = x; c.op("breach feature-without-data"); std::string fid = ft.id(); b.deleteDataArray(d); out.push_back({"feature-without-data", fid, true, false, nullptr}); return true; } return false; }
            }
        } else {
            int k = (int)r.u(5);
            switch (k) {
            case 0: { Arr &A = arrays[r.u(arrays.size())]; if (A.a.dimensionCount() == 1 && A.kinds[0] == 1) return false; c.op("soft-breach array-unit-non-SI"); A.a.unit("arbitrary units"); out.push_back({"array-unit-non-SI", A.a.id(), false, false, nullptr}); return true; }
            case 1: { Arr &A = arrays[r.u(arrays.size())]; c.op("soft-breach coefficients-without-origin"); A.a.polynomCoefficients({1.0, 3.0}); A.a.expansionOrigin(nix::none); out.push_back({"coefficients-without-origin", A.a.id(), false, false, nullptr}); return true; }
            case 2: { Arr &A = arrays[r.u(arrays.size())]; c.op("soft-breach origin-without-coefficients"); A.a.polynomCoefficients(nix::none); A.a.expansionOrigin(2.0); out.push_back({"origin-without-coefficients", A.a.id(), false, false, nullptr}); return true; }
            case 3: { for (size_t t = 0; t < 8; t++) { Arr &A = arrays[r.u(arrays.size())]; for (size_t d = 0; d < A.kinds.size(); d++) if (A.kinds[d] == 0 && d < (size_t)A.a.dimensionCount()) { bool used = false; for (auto &tg : tags) for (auto &ref : tg.references()) if (ref.id() == A.a.id()) used = true; for (auto &tg : mtags) for (auto &ref : tg.references()) if (ref.id() == A.a.id()) used = true; if (used) continue;   /* removing the unit of a referenced dimension would change what the tag-unit rule demands */ std::string key = "offset-without-unit:" + A.a.id() + "/" + str(d); bool dup = false; for (auto &o : out) if (o.name == key) dup = true; if (dup) continue; SampledDimension sd = A.a.getDimension(d + 1).asSampledDimension(); c.op("soft-breach offset-without-unit"); sd.offset(1.0); sd.unit(nix::none); out.push_back({key, "unknown", false, true, nullptr}); return true; } } return false; }
            case 4: { for (auto &s : f.sections()) for (auto &p : s.properties()) { Property q = p; c.op("soft-breach property-values-without-unit"); q.unit(nix::none); out.push_back({"property-values-without-unit", q.id(), false, false, nullptr}); return true; } return false; }
            }
        }
        return false;
    }
};

std::string msgs(const std::vector<valid::Message> &m) { std::string s; for (size_t i = 0; i < m.size() && i < 6; i++) s += "[" + m[i].id.substr(0, 8) + ": " + m[i].msg.substr(0, 70) + "] "; return s + (m.size() > 6 ? "... (" + str(m.size()) + ")" : ""); }

void run_case(Ctx &c) {
    Rng &r = c.rng; Gen g(c); g.build();
    c.op("validate conforming");
    valid::Result base = g.f.validate();
    auto describe = [&](const std::vector<valid::Message> &ms) { std::string o; for (auto &m : ms) for (auto &b : g.f.blocks()) for (auto &a : b.dataArrays()) if (a.id() == m.id) { o += a.name() + " rank=" + str(a.dataExtent().size()) + " dims=" + str(a.dimensionCount()) + " extent0=" + (a.dataExtent().size() ? str(a.dataExtent()[0]) : std::string("-")) + "; "; } return o; };
    c.check(base.getErrors().empty(), "C19/sound/error-on-conforming-file", [&] { return describe(base.getErrors()) + "conforming file (" + str(g.arrays.size()) + " arrays, " + str(g.tags.size()) + " tags, " + str(g.mtags.size()) + " multi-tags): " + msgs(base.getErrors()); });
    size_t base_warn = base.getWarnings().size(); c.count("conforming_files"); c.count("conforming_warnings", (long)base_warn);
    // and after a reopen
    int mode = (int)r.u(3);   // 0: hard breaches (1-3), 1: soft breaches only, 2: none (reopen check)
    std::vector<Breach> B;
    if (mode == 0) { int n = 1 + (int)r.u(3); for (int i = 0; i < n * 3 && (int)B.size() < n; i++) { try { g.breach(true, B); } catch (std::exception &) { c.count("breach_not_applicable"); } } if (r.chance(0.3)) { try { g.breach(false, B); } catch (std::exception &) {} } }
    else if (mode == 1) { int n = 1 + (int)r.u(2); for (int i = 0; i < n * 3 && (int)B.size() < n; i++) { try { g.breach(false, B); } catch (std::exception &) { c.count("breach_not_applicable"); } } }
    for (auto &b : B) c.fp(b.name.substr(0, b.name.find(':')));
    c.fp("m" + str(mode));
    g.arrays.clear(); g.tags.clear(); g.mtags.clear(); g.f.close();
    for (auto &b : B) if (b.h5_inject) b.h5_inject();
    g.f = File::open(g.path, FileMode::ReadOnly);
    c.op("validate after injection | breaches=" + str(B.size()));
    valid::Result res = g.f.validate(); std::vector<valid::Message> errs = res.getErrors(), warns = res.getWarnings();
    bool any_hard = false; size_t dim_hard = 0, dim_soft = 0; for (auto &b : B) { any_hard = any_hard || b.hard; if (b.hard && b.dim_level) dim_hard++; if (!b.hard && b.dim_level) dim_soft++; }
    for (auto &b : B) {
        c.count(std::string(b.hard ? "hard:" : "soft:") + b.name.substr(0, b.name.find_first_of("/:")));
        if (b.hard && !b.dim_level) { bool found = false; for (auto &m : errs) found = found || m.id == b.entity_id; c.check(found, "C19/complete/unreported/" + b.name, [&] { return "hard breach '" + b.name + "' at entity " + b.entity_id + " produced no error for it; errors: " + msgs(errs); }); }
        if (!b.hard && !b.dim_level) { bool werr = false, wwarn = false; for (auto &m : errs) werr = werr || m.id == b.entity_id; for (auto &m : warns) wwarn = wwarn || m.id == b.entity_id; if (!any_hard) c.check(!werr, "C19/soft-as-error/" + b.name, [&] { return "soft breach '" + b.name + "' reported as error: " + msgs(errs); }); c.check(wwarn, "C19/soft-unreported/" + b.name, [&] { return "soft breach '" + b.name + "' at " + b.entity_id + " produced no warning; warnings: " + msgs(warns); }); }
    }
    if (dim_hard) { size_t unk = 0; for (auto &m : errs) if (m.id == "unknown") unk++; c.check(unk >= dim_hard, "C19/complete/unreported/dimension-level", [&] { std::string names; for (auto &b : B) if (b.hard && b.dim_level) names += b.name.substr(0, b.name.find(':')) + ","; return str(dim_hard) + " breaching dimension descriptors (" + names + ") but only " + str(unk) + " dimension-level errors: " + msgs(errs); }); }
    if (dim_soft) { size_t unk = 0; for (auto &m : warns) if (m.id == "unknown") unk++; c.check(unk >= dim_soft, "C19/soft-unreported/offset-without-unit", "no dimension-level warning for an offset without unit"); }
    if (!any_hard) c.check(errs.empty(), mode == 2 ? "C19/sound/error-after-reopen" : "C19/soft-as-error/any", [&] { return "no hard rule is breached but the validator reports errors: " + msgs(errs); });
    c.nontrivial = true; g.f.close();
}
long ncases(const std::string &tier) { return tier == "quick" ? 600 : 5000; }
std::vector<std::string> witnesses() { return {"d11-tag-unit-first-dimension"}; }
void run_witness(Ctx &c, const std::string &name) {
    File f = File::open(c.path("w.nix"), FileMode::Overwrite); Block b = f.createBlock("b", "t");
    if (name == "d11-tag-unit-first-dimension") {
        DataArray a = b.createDataArray("a", "t", DataType::Double, NDSize{3, 3}); a.appendSampledDimension(1.0, "time", "s"); a.appendSampledDimension(1.0, "volt", "V");
        Tag t = b.createTag("t", "t", {1.0, 1.0}); t.addReference(a); t.units({"mV", "mV"});   // first unit cannot be converted to seconds
        c.op("validate after injection"); valid::Result res = f.validate(); bool found = false; for (auto &m : res.getErrors()) found = found || m.id == t.id();
        c.check(found, "C19/complete/unreported/tag-unit/unit1of2", "tag units {mV,mV} on axes {s,V}: no error for the tag; errors: " + msgs(res.getErrors()));
    }
    c.nontrivial = true; f.close();
}
Reg reg({"C19", ncases, run_case, witnesses, run_witness, 120});
}  // namespace
