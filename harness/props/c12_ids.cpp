// C12 - ids are well-formed UUIDs, never change and never collide (in a file, across sessions, across processes).
#include "core/core.hpp"
#include <hdf5.h>
#include "core/graph.hpp"
#include <nix/verif_hooks.hpp>
#include <sys/wait.h>
#include <thread>
#include <fstream>
using namespace vm;
using namespace nix;

namespace {
bool well_formed(const std::string &id) { if (id.size() != 36) return false; for (size_t i = 0; i < 36; i++) { char ch = id[i]; if (i == 8 || i == 13 || i == 18 || i == 23) { if (ch != '-') return false; } else if (!((ch >= '0' && ch <= '9') || (ch >= 'a' && ch <= 'f'))) return false; } return true; }

void ids_of(const ONode &n, std::vector<std::pair<std::string, std::string>> &out, const std::string &path = "") {
    std::string p = path + "/" + n.kind + "[" + n.name.substr(0, 20) + "]";
    if (n.kind != "dimension" && !n.id.empty()) out.emplace_back(n.id, p);
    for (auto &c : n.children) ids_of(c, out, p);
}

// ---- helper run in a freshly exec'ed process: one session on a file that creates entities of every kind; prints "kind<TAB>id"
int idgen_helper(int argc, char **argv) {
    if (argc < 3) return 2;
    std::string path = argv[0]; std::string mode = argv[1]; int n = atoi(argv[2]); std::string tagname = argc > 3 ? argv[3] : "x"; int focus = argc > 4 ? atoi(argv[4]) : -1;   // focus: every second creation is of this kind, so each kind in turn dominates a population
    try {
        if (mode == "forkers") {
            // workers forked WITHOUT exec from a parent that has (warm) or has not yet drawn an id: each worker is "another process"
            int P = argc > 5 ? atoi(argv[5]) : 3; bool warm = argc > 6 && atoi(argv[6]) != 0;
            if (warm) { File f0 = File::open(path, FileMode::Overwrite); printf("file\t%s\n", f0.id().c_str()); printf("block\t%s\n", f0.createBlock("warm", "t").id().c_str()); f0.close(); }
            fflush(nullptr); std::vector<pid_t> kids;
            for (int w = 0; w < P; w++) {
                pid_t pid = fork();
                if (pid == 0) {
                    if (!freopen((path + ".out" + std::to_string(w)).c_str(), "w", stdout)) _exit(4);
                    int rc = 0;
                    try {
                        File f = File::open(path + ".w" + std::to_string(w), FileMode::Overwrite); printf("file\t%s\n", f.id().c_str());
                        Block b = f.createBlock("b", "t"); printf("block\t%s\n", b.id().c_str()); Section s = f.createSection("s", "t"); printf("section\t%s\n", s.id().c_str());
                        for (int i = 0; i < n; i++) { std::string k = "e" + std::to_string(i);
                            switch (i % 4) { case 0: printf("data_array\t%s\n", b.createDataArray(k, "t", DataType::Double, NDSize{2}).id().c_str()); break; case 1: printf("tag\t%s\n", b.createTag(k, "t", {1.0}).id().c_str()); break;
                                             case 2: printf("property\t%s\n", s.createProperty(k, Variant(1.0)).id().c_str()); break; default: printf("source\t%s\n", b.createSource(k, "t").id().c_str()); } }
                        f.close();
                    } catch (std::exception &e) { fprintf(stderr, "forked worker: %s\n", e.what()); rc = 3; }
                    fflush(nullptr); _exit(rc);
                }
                kids.push_back(pid);
            }
            int bad = 0; for (pid_t k : kids) { int st; waitpid(k, &st, 0); if (!WIFEXITED(st) || WEXITSTATUS(st) != 0) bad++; }
            for (int w = 0; w < P; w++) { FILE *fi = fopen((path + ".out" + std::to_string(w)).c_str(), "r"); if (!fi) { bad++; continue; } char line[512]; while (fgets(line, sizeof line, fi)) { std::string l(line); size_t t = l.find('\t'); if (t != std::string::npos) printf("worker%d-%s", w, l.c_str()); } fclose(fi); }
            return bad ? 3 : 0;
        }
        File f = File::open(path, mode == "append" ? FileMode::ReadWrite : FileMode::Overwrite);
        if (mode != "append") printf("file\t%s\n", f.id().c_str());
        auto body = [&](const std::string &pfx, int count) {
            Block b = f.createBlock(pfx + "-blk", "t"); printf("block\t%s\n", b.id().c_str());
            Section s = f.createSection(pfx + "-sec", "t"); printf("section\t%s\n", s.id().c_str());
            for (int i = 0; i < count; i++) {
                std::string k = pfx + "-" + std::to_string(i);
                switch ((focus >= 0 && i % 2) ? focus : i % 9) {
                case 0: printf("data_array\t%s\n", b.createDataArray(k, "t", DataType::Double, NDSize{2}).id().c_str()); break;
                case 1: printf("tag\t%s\n", b.createTag(k, "t", {1.0}).id().c_str()); break;
                case 2: printf("source\t%s\n", b.createSource(k, "t").id().c_str()); break;
                case 3: printf("group\t%s\n", b.createGroup(k, "t").id().c_str()); break;
                case 4: printf("property\t%s\n", s.createProperty(k, Variant(1.0)).id().c_str()); break;
                case 5: printf("section\t%s\n", s.createSection(k, "t").id().c_str()); break;
                case 6: printf("data_frame\t%s\n", b.createDataFrame(k, "t", {{"c", "", DataType::Double}}).id().c_str()); break;
                case 7: { DataArray a = b.createDataArray(k, "t", DataType::Double, NDSize{2}); printf("data_array\t%s\n", a.id().c_str()); printf("multi_tag\t%s\n", b.createMultiTag(k + "m", "t", a).id().c_str()); break; }
                default: { DataArray a = b.createDataArray(k, "t", DataType::Double, NDSize{2}); printf("data_array\t%s\n", a.id().c_str()); Tag t = b.createTag(k + "t", "t", {1.0}); printf("tag\t%s\n", t.id().c_str()); printf("feature\t%s\n", t.createFeature(a, LinkType::Untagged).id().c_str()); break; }
                }
            }
        };
        body(tagname + "-main", n);
        if (mode == "threads") { std::thread th([&] { body(tagname + "-thread", n / 2 + 1); }); th.join(); std::thread th2([&] { body(tagname + "-thread2", n / 2 + 1); }); th2.join(); }
        f.close();
    } catch (std::exception &e) { fprintf(stderr, "idgen helper: %s\n", e.what()); return 3; }
    return 0;
}
RegHelper rh("c12-idgen", idgen_helper);

struct Proc { pid_t pid; int fd; std::string out; };
Proc spawn(const std::vector<std::string> &args, long pin_time, int gate_fd) {
    int p[2]; if (pipe(p) != 0) return {-1, -1, ""};
    fflush(nullptr); pid_t pid = fork();
    if (pid == 0) {
        close(p[0]); dup2(p[1], 1); close(p[1]);
        if (gate_fd >= 0) { char b; ssize_t r = read(gate_fd, &b, 1); (void)r; }   // barrier: all processes are released together
        if (pin_time) setenv("VERIF_PIN_TIME", std::to_string(pin_time).c_str(), 1); else unsetenv("VERIF_PIN_TIME");
        std::string exe = self_exe(); std::vector<char *> av; av.push_back((char *)exe.c_str()); av.push_back((char *)"--helper"); av.push_back((char *)"c12-idgen"); for (auto &a : args) av.push_back((char *)a.c_str()); av.push_back(nullptr);
        execv(exe.c_str(), av.data()); _exit(127);
    }
    close(p[1]); return {pid, p[0], ""};
}
bool collect(Proc &pr) { char buf[65536]; ssize_t n; while ((n = read(pr.fd, buf, sizeof buf)) > 0) pr.out.append(buf, (size_t)n); close(pr.fd); int st; waitpid(pr.pid, &st, 0); return WIFEXITED(st) && WEXITSTATUS(st) == 0; }

void check_population(Ctx &c, const std::vector<std::pair<std::string, std::string>> &ids, const std::string &scen) {
    std::map<std::string, std::string> seen; long dups = 0; std::string w;
    for (auto &kv : ids) {
        c.check(well_formed(kv.first), "C12/format/" + scen, [&] { return "id '" + kv.first + "' of " + kv.second + " is not a lowercase 8-4-4-4-12 UUID"; });
        auto it = seen.find(kv.first); if (it != seen.end()) { if (!dups++) w = "id " + kv.first + " given to " + it->second + " and to " + kv.second; } else seen[kv.first] = kv.second;
    }
    c.check(dups == 0, "C12/collision/" + scen, [&] { return str(dups) + " of " + str(ids.size()) + " ids are duplicates; e.g. " + w; });
    c.count("ids_checked", (long)ids.size());
}

void multi_process(Ctx &c, int variant) {
    Rng &r = c.rng; static const int Ps[] = {2, 4, 8, 16}; int P = r.pick(Ps); int n = 30 + (int)r.u(30);
    long t0 = 1700000000 + (long)r.u(100000000);
    std::string focus = str((int)r.u(10) - 1);
    std::string scen = variant == 0 ? "same-second-pinned" : variant == 1 ? "same-second-real-clock" : variant == 2 ? "staggered-seconds" : variant == 3 ? "sequential-sessions-one-file" : variant == 4 ? "threads-in-one-process" : variant == 5 ? "forked-workers-after-first-id" : "forked-workers-before-first-id";
    c.fp(scen + str(P) + "f" + focus); c.count("scenario:" + scen); c.count("focus-kind:" + focus);
    std::vector<std::pair<std::string, std::string>> ids;
    auto parse = [&](const std::string &out, const std::string &who) { size_t a = 0; while (a < out.size()) { size_t b = out.find('\n', a); if (b == std::string::npos) b = out.size(); std::string l = out.substr(a, b - a); size_t t = l.find('\t'); if (t != std::string::npos) ids.emplace_back(l.substr(t + 1), who + ":" + l.substr(0, t)); a = b + 1; } };
    if (variant <= 2) {
        int gate[2]; if (pipe(gate) != 0) return;
        c.op("spawn " + scen + " | P=" + str(P) + " n=" + str(n));
        std::vector<Proc> procs;
        for (int i = 0; i < P; i++) procs.push_back(spawn({c.path("p" + str(i) + ".nix"), "create", str(n), "p" + str(i), focus}, variant == 0 ? t0 : variant == 2 ? t0 + i : 0, gate[0]));
        close(gate[0]); { std::string go((size_t)P, 'g'); ssize_t w = write(gate[1], go.data(), go.size()); (void)w; } close(gate[1]);
        for (int i = 0; i < P; i++) { bool ok = collect(procs[(size_t)i]); c.check(ok, "C12/harness/helper-failed", "id generating process failed"); parse(procs[(size_t)i].out, "process" + str(i)); }
        c.count("processes", P);
    } else if (variant == 3) {
        // short-lived sessions on the SAME file, all inside one second
        c.op("sequential sessions on one file | sessions=" + str(P));
        for (int i = 0; i < P; i++) { Proc pr = spawn({c.path("shared.nix"), i == 0 ? "create" : "append", str(n / 2 + 2), "s" + str(i), focus}, t0, -1); bool ok = collect(pr); c.check(ok, "C12/harness/helper-failed", "session process failed: " + pr.out.substr(0, 100)); parse(pr.out, "session" + str(i)); }
        // and the ids stored in the file itself
        File f = File::open(c.path("shared.nix"), FileMode::ReadOnly); Observer ob; ONode t = ob.file(f); f.close(); std::vector<std::pair<std::string, std::string>> infile; ids_of(t, infile); check_population(c, infile, scen + "/in-file");
        c.count("sessions", P);
    } else if (variant >= 5) {
        // processes created by fork() without exec (worker pools): they must not continue the parent's id sequence in lockstep
        c.op("forked workers | P=" + str(P) + " warm=" + str(variant == 5)); Proc pr = spawn({c.path("fork.nix"), "forkers", str(n / 3 + 3), "f", focus, str(P), variant == 5 ? "1" : "0"}, r.chance(0.5) ? t0 : 0, -1);
        bool ok = collect(pr); c.check(ok, "C12/harness/helper-failed", "fork helper failed"); parse(pr.out, "forked"); c.count("processes", P);
    } else {
        c.op("threads in one process"); Proc pr = spawn({c.path("thr.nix"), "threads", str(n), "t", focus}, 0, -1); bool ok = collect(pr); c.check(ok, "C12/harness/helper-failed", "thread helper failed"); parse(pr.out, "threads");
    }
    check_population(c, ids, scen);
}

// ---- in-process: id stability under random histories, hook monitor "an existing id is never overwritten"
std::vector<std::string> *g_overwrites = nullptr; long g_idwrites = 0;
void sink(const char *kind, const std::string &detail) {
    if (strcmp(kind, "id.write") != 0) return; g_idwrites++;
    size_t a = detail.find('\t'), b = detail.find('\t', a + 1); std::string prev = detail.substr(a + 1, b - a - 1);
    if (!prev.empty() && g_overwrites) g_overwrites->push_back(detail.substr(0, a) + ": " + prev + " -> " + detail.substr(b + 1));
}
void stability(Ctx &c) {
    Rng &r = c.rng; c.fp("stab"); std::vector<std::string> overwrites; g_overwrites = &overwrites; g_idwrites = 0; nix::verif::setSink(sink);
    Graph g(c); g.hostile_pct = 40; g.create(c.path("c12.nix"));
    std::vector<std::pair<std::function<std::string()>, std::string>> watched;   // (id getter of a held handle, id at creation)
    std::string file_id = g.f.id(); c.check(well_formed(file_id), "C12/format/file", "file id " + file_id);
    int n = (int)r.range(30, 60);
    for (int i = 0; i < n; i++) {
        g.step({10, 5, 6, 2, 2});
        if (r.chance(0.3)) { try { Block b; if (g.anyBlock(b)) { watched.emplace_back([b] { return b.id(); }, b.id()); DataArray a; if (g.anyArray(b, a)) watched.emplace_back([a] { return a.id(); }, a.id()); Tag t; if (g.anyTag(b, t)) watched.emplace_back([t] { return t.id(); }, t.id()); Source s; if (g.anySource(b, s)) watched.emplace_back([s] { return s.id(); }, s.id()); DataFrame df; if (g.anyFrame(b, df)) watched.emplace_back([df] { return df.id(); }, df.id()); } Section s; if (g.anySection(s)) { watched.emplace_back([s] { return s.id(); }, s.id()); if (s.propertyCount()) { Property p = s.getProperty(0); watched.emplace_back([p] { return p.id(); }, p.id()); } } } catch (...) {} }
        // duplicate creates with existing (also UUID-shaped) names must not re-identify the existing entity
        if (r.chance(0.25)) { try { Block b; if (g.anyBlock(b)) { std::string nm = r.chance(0.5) ? uuid_like(r) : "dup" + str(r.u(3)); c.op("create-then-duplicate | " + nm.substr(0, 12)); int k = (int)r.u(5);
            auto twice = [&](std::function<std::string()> mk) { std::string id1; try { id1 = mk(); } catch (...) { return; } try { mk(); } catch (...) {} (void)id1; };
            if (k == 0) twice([&] { return b.createDataArray(nm, "t", DataType::Double, NDSize{2}).id(); }); else if (k == 1) twice([&] { return b.createTag(nm, "t", {1.0}).id(); }); else if (k == 2) twice([&] { return b.createSource(nm, "t").id(); }); else if (k == 3) twice([&] { return b.createDataFrame(nm, "t", {{"c", "", DataType::Double}}).id(); }); else twice([&] { return b.createGroup(nm, "t").id(); }); } } catch (...) {} }
        for (auto &w : watched) { std::string now; try { now = w.first(); } catch (...) { continue; } c.check(now == w.second, "C12/id-changed/live-handle", [&] { return "entity id changed from " + w.second + " to " + now; }); }
        if (i % 10 == 9) { Observer ob; ONode t = ob.file(g.f); std::vector<std::pair<std::string, std::string>> ids; ids_of(t, ids); check_population(c, ids, "one-file"); }
        if (r.chance(0.05)) { watched.clear(); Observer o0; ONode t0 = o0.file(g.f); std::vector<std::pair<std::string, std::string>> a, b; ids_of(t0, a); c.op("close+reopen"); g.close(); advance_clock(2); g.open(FileMode::ReadWrite); Observer o1; ONode t1 = o1.file(g.f); ids_of(t1, b); c.check(a == b, "C12/id-changed/reopen", "ids differ after close+reopen"); c.check(g.f.id() == file_id, "C12/id-changed/file", "file id changed by reopen"); }
    }
    c.check(overwrites.empty(), "C12/id-overwritten", [&] { return str(overwrites.size()) + " id attribute(s) of existing objects were overwritten, e.g. " + overwrites[0]; });
    c.count("hook_id_writes", g_idwrites);
    // a forced open of a file whose format version differs (older, newer) is still an open, not a creation: file and entity ids stay
    { Observer o0; ONode t0 = o0.file(g.f); std::vector<std::pair<std::string, std::string>> a, b; ids_of(t0, a); std::string fid = g.f.id(); std::vector<int> ver = g.f.version(); g.close();
      for (int dz = -1; dz <= 1 && ver.size() == 3; dz += 2) { for (FileMode fm : {FileMode::ReadWrite, FileMode::ReadOnly}) {
        hid_t hf = H5Fopen(g.path.c_str(), H5F_ACC_RDWR, H5P_DEFAULT); bool ok = false; if (hf >= 0) { hid_t at = H5Aopen(hf, "version", H5P_DEFAULT); if (at >= 0) { int buf[3] = {ver[0], ver[1], ver[2] + dz}; ok = H5Awrite(at, H5T_NATIVE_INT, buf) >= 0; H5Aclose(at); } H5Fclose(hf); }
        if (!ok) continue;
        c.op(std::string("forced open of a file with another format version | ") + (fm == FileMode::ReadWrite ? "ReadWrite" : "ReadOnly"));
        try { File ff = File::open(g.path, fm, "hdf5", Compression::Auto, OpenFlags::Force); std::string now = ff.id(); Observer o1; ONode t1 = o1.file(ff); b.clear(); ids_of(t1, b); ff.close();
              c.check(now == fid, "C12/id-changed/file/forced-open", "file id " + fid + " became " + now + " through a forced open"); c.check(a == b, "C12/id-changed/forced-open", "entity ids differ after a forced open"); c.count("forced_opens"); }
        catch (std::exception &e) { c.note(std::string("forced open threw: ") + e.what()); } } }
      hid_t hf = H5Fopen(g.path.c_str(), H5F_ACC_RDWR, H5P_DEFAULT); if (hf >= 0 && ver.size() == 3) { hid_t at = H5Aopen(hf, "version", H5P_DEFAULT); if (at >= 0) { int buf[3] = {ver[0], ver[1], ver[2]}; H5Awrite(at, H5T_NATIVE_INT, buf); H5Aclose(at); } } if (hf >= 0) H5Fclose(hf);
      g.open(FileMode::ReadWrite); c.check(g.f.id() == fid, "C12/id-changed/file/forced-open", "file id differs after the forced sessions"); }
    // forceId is the only exception
    std::string before = g.f.id(); g.f.forceId(); c.check(g.f.id() != before && well_formed(g.f.id()), "C12/forceId", "forceId did not give a new well-formed id");
    watched.clear(); nix::verif::setSink(nullptr); g_overwrites = nullptr; g.close();
}

void run_case(Ctx &c) {
    int k = (int)(c.index % 10);
    if (k <= 6) multi_process(c, k); else stability(c);
    c.nontrivial = c.checks > 3;
}
long ncases(const std::string &tier) { return tier == "quick" ? 80 : 2000; }
std::vector<std::string> witnesses() { return {"d4-same-second", "d34-forked-workers"}; }
void run_witness(Ctx &c, const std::string &name) { if (name == "d4-same-second") { multi_process(c, 0); multi_process(c, 3); } if (name == "d34-forked-workers") { multi_process(c, 5); multi_process(c, 6); } c.nontrivial = true; }
Reg reg({"C12", ncases, run_case, witnesses, run_witness, 180});
}  // namespace
