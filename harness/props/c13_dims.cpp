// C13 - dimension descriptors are gap-free, faithful, and aliases mirror their array.
#include "core/core.hpp"
#include "core/graph.hpp"
using namespace vm;
using namespace nix;

namespace {
struct MD {   // model of one descriptor
    DimensionType kind; boost::optional<std::string> label, unit; double interval = 1; boost::optional<double> offset; std::vector<double> ticks; std::vector<std::string> labels; std::string frame_id; boost::optional<unsigned> column; bool alias = false;
};
std::string optS(const boost::optional<std::string> &s) { return s ? "'" + *s + "'" : "none"; }
std::string optD(const boost::optional<double> &d) { return d ? hexd(*d) : "none"; }
std::string vD(const std::vector<double> &v) { std::string s = "["; for (size_t i = 0; i < v.size() && i < 8; i++) s += dstr(v[i]) + ","; if (v.size() > 8) s += "..(" + str(v.size()) + ")"; return s + "]"; }
bool sorted(const std::vector<double> &v) { return std::is_sorted(v.begin(), v.end()); }

struct H {
    Ctx &c; Rng &r; File f; Block b; DataArray a, other; /* two independently obtained handles of the array take turns */ std::vector<MD> m; std::string path; std::vector<DataFrame> frames;
    H(Ctx &cx) : c(cx), r(cx.rng) {}

    void turn() { try { if (a && !other) other = b.getDataArray(r.chance(0.5) ? a.name() : a.id()); if (other && r.chance(0.5)) { std::swap(a, other); c.count("handle-turns"); } } catch (std::exception &) {} }
    void compare(const char *when) {
        turn();
        ndsize_t n = 0; try { n = a.dimensionCount(); } catch (std::exception &e) { c.check(false, "C13/count-exception", e.what()); return; }
        c.check((size_t)n == m.size(), "C13/count", [&] { return "dimensionCount()=" + str(n) + " model " + str(m.size()) + " (" + when + ")"; });
        std::vector<Dimension> all; try { all = a.dimensions(); } catch (std::exception &e) { c.check(false, "C13/dimensions-exception", e.what()); }
        c.check(all.size() == (size_t)n, "C13/dimensions-vector", "dimensions() has " + str(all.size()) + " entries, dimensionCount() " + str(n));
        for (size_t i = 0; i < m.size() && i < (size_t)n; i++) {
            const MD &w = m[i]; Dimension d;
            try { d = r.chance(0.5) && i < all.size() ? all[i] : a.getDimension(i + 1); } catch (std::exception &e) { c.check(false, "C13/getDimension-exception", "getDimension(" + str(i + 1) + ") threw " + e.what()); continue; }
            std::string K = "C13/faithful/";
            try {
                c.check(d.index() == i + 1, "C13/gap-free-index", [&] { return "descriptor #" + str(i + 1) + " reports index " + str(d.index()) + " (" + when + ")"; });
                c.check(d.dimensionType() == w.kind, K + "kind", [&] { return "descriptor #" + str(i + 1) + " is " + util::dimTypeToStr(d.dimensionType()) + ", appended as " + util::dimTypeToStr(w.kind) + " (" + when + ")"; });
                if (d.dimensionType() != w.kind) continue;
                if (w.kind == DimensionType::Sample) { SampledDimension s = d.asSampledDimension();
                    c.check(s.label() == w.label, K + "sampled-label", [&] { return "label " + optS(s.label()) + " expected " + optS(w.label) + " (" + when + ")"; });
                    c.check(s.unit() == w.unit, K + "sampled-unit", [&] { return "unit " + optS(s.unit()) + " expected " + optS(w.unit) + " (" + when + ")"; });
                    c.check(s.samplingInterval() == w.interval, K + "sampled-interval", [&] { return "interval " + hexd(s.samplingInterval()) + " expected " + hexd(w.interval) + " (" + when + ")"; });
                    c.check(s.offset() == w.offset, K + "sampled-offset", [&] { return "offset " + optD(s.offset()) + " expected " + optD(w.offset) + " (" + when + ")"; });
                    c.check(s.samplingInterval() > 0.0, "C13/invariant/interval-not-positive", [&] { return "stored sampling interval " + dstr(s.samplingInterval()) + " (" + when + ")"; });
                } else if (w.kind == DimensionType::Range) { RangeDimension s = d.asRangeDimension();
                    c.check(s.alias() == w.alias, K + "range-alias-flag", "alias flag differs");
                    std::vector<double> t = s.ticks();
                    c.check(sorted(t), "C13/invariant/ticks-not-ascending", [&] { return "stored ticks " + vD(t) + " (" + when + ")"; });
                    if (!w.alias) {
                        c.check(t == w.ticks, K + "range-ticks", [&] { return "ticks " + vD(t) + " expected " + vD(w.ticks) + " (" + when + ")"; });
                        c.check(s.label() == w.label, K + "range-label", [&] { return "label " + optS(s.label()) + " expected " + optS(w.label) + " (" + when + ")"; });
                        c.check(s.unit() == w.unit, K + "range-unit", [&] { return "unit " + optS(s.unit()) + " expected " + optS(w.unit) + " (" + when + ")"; });
                        if (!t.empty()) { size_t k = r.u(t.size()); c.check(s.tickAt(k) == w.ticks[k], K + "range-tickAt", "tickAt differs from ticks()"); size_t st = r.u(t.size()), cn = r.u(t.size() - st + 1); std::vector<double> part = s.ticks(st, cn); c.check(part == std::vector<double>(w.ticks.begin() + (long)st, w.ticks.begin() + (long)(st + cn)), K + "range-ticks-part", [&] { return "ticks(" + str(st) + "," + str(cn) + ") = " + vD(part) + " of " + vD(w.ticks); }); }
                    } else {   // alias: mirrors the array in both directions
                        std::vector<double> data; a.getData(data);
                        c.check(t == data, "C13/alias/ticks-are-data", [&] { return "alias ticks " + vD(t) + " array data " + vD(data) + " (" + when + ")"; });
                        // the partial accessors read the same data
                        if (!t.empty()) { size_t k = r.u(t.size()), st = r.u(t.size()), cn = r.u(t.size() - st + 1);
                            double one = s.tickAt(k); c.check(one == data[k], "C13/alias/tickAt", [&] { return "alias tickAt(" + str(k) + ") = " + dstr(one) + ", array element " + dstr(data[k]) + " (" + when + ")"; });
                            std::vector<double> part = s.ticks(st, cn), ax = cn ? s.axis(cn, st) : std::vector<double>(), wantp(data.begin() + (long)st, data.begin() + (long)(st + cn));
                            c.check(part == wantp, "C13/alias/ticks-part", [&] { return "alias ticks(" + str(st) + "," + str(cn) + ") = " + vD(part) + ", array data there " + vD(wantp) + " (" + when + ")"; });
                            c.check(ax == wantp, "C13/alias/axis", [&] { return "alias axis(" + str(cn) + "," + str(st) + ") = " + vD(ax) + ", array data there " + vD(wantp) + " (" + when + ")"; }); }
                        c.check(t == w.ticks, "C13/alias/ticks-model", [&] { return "alias ticks " + vD(t) + " expected " + vD(w.ticks) + " (" + when + ")"; });
                        c.check(s.label() == a.label() && s.label() == w.label, "C13/alias/label", [&] { return "alias label " + optS(s.label()) + " array label " + optS(a.label()) + " expected " + optS(w.label) + " (" + when + ")"; });
                        c.check(s.unit() == a.unit() && s.unit() == w.unit, "C13/alias/unit", [&] { return "alias unit " + optS(s.unit()) + " array unit " + optS(a.unit()) + " expected " + optS(w.unit) + " (" + when + ")"; });
                    }
                } else if (w.kind == DimensionType::Set) { SetDimension s = d.asSetDimension();
                    c.check(s.label() == w.label, K + "set-label", [&] { return "label " + optS(s.label()) + " expected " + optS(w.label) + " (" + when + ")"; });
                    c.check(s.labels() == w.labels, K + "set-labels", [&] { return "labels " + str(s.labels().size()) + " expected " + str(w.labels.size()) + " (" + when + ")"; });
                } else { DataFrameDimension s = d.asDataFrameDimension();
                    DataFrame df = s.data(); c.check(df && df.id() == w.frame_id, K + "frame", "data frame of the descriptor differs");
                    c.check(s.columnIndex() == w.column, K + "frame-column", [&] { return "column " + (s.columnIndex() ? str(*s.columnIndex()) : std::string("none")) + " expected " + (w.column ? str(*w.column) : std::string("none")) + " (" + when + ")"; });
                    if (w.column && df) { auto cols = df.columns(); if (*w.column < cols.size()) { c.check(s.label() == cols[*w.column].name, K + "frame-label", "label() is not the column name"); c.check(s.unit() == cols[*w.column].unit, K + "frame-unit", "unit() is not the column unit"); c.check(s.columnDataType() == cols[*w.column].dtype, K + "frame-dtype", "columnDataType() differs"); } }
                }
            } catch (std::exception &e) { c.check(false, "C13/getter-exception/" + util::dimTypeToStr(w.kind), std::string("getter threw: ") + e.what() + " (" + when + ")"); }
        }
        c.count("compares");
    }

    std::vector<double> gen_ticks(bool legal) { std::vector<double> t; size_t n = 1 + r.u(8); double x = (double)r.range(-5, 5) * 0.5; for (size_t i = 0; i < n; i++) { t.push_back(x); x += r.chance(0.1) ? 0.0 : 0.25 * (double)(1 + r.u(8)); } if (!legal && n >= 2) {
            int how = (int)r.u(3);
            if (how == 0) { std::swap(t[r.u(n - 1)], t[n - 1]); if (sorted(t)) { t[0] = t[n - 1] + 1; } }
            else if (how == 1) { size_t i = 1 + r.u(n - 1); t[i] = std::nextafter(t[i - 1], -INFINITY); for (size_t j = i + 1; j < n; j++) if (t[j] < t[i - 1]) t[j] = t[i - 1] + (double)(j - i); }   // barely unsorted: one tick one ulp below its predecessor
            else { t.assign({3e-16, 2e-16, 4e-16}); }                                                                                     // tiny magnitudes, descending by 1e-16
        } return t; }
    std::string gen_label() { static const char *v[] = {"time", "voltage", "l a b e l", "\xc3\xa4", "x"}; return r.pick(v); }

    void op() {
        turn();
        int k = (int)r.weighted({4, 4, 3, 2, 8, 1, 2, 1});
        size_t cur = m.size();
        if (cur >= 4 && k <= 3) k = 4;
        try {
            switch (k) {
            case 0: {   // append sampled, legal and illegal
                int ic = (int)r.weighted({7, 1, 1}); double iv = ic == 0 ? std::ldexp(0.5 + r.real(), (int)r.range(-6, 6)) : ic == 1 ? 0.0 : -std::ldexp(1.0, (int)r.range(-3, 3));
                int oc = (int)r.u(4); double off = oc == 0 ? 0.0 : oc == 1 ? (double)r.range(1, 9) * 0.25 : oc == 2 ? -(double)r.range(1, 9) * 0.25 : r.real();
                std::string lbl = r.chance(0.5) ? gen_label() : "", un = r.chance(0.5) ? (r.chance(0.8) ? "ms" : "mV") : "";
                bool use_full = r.chance(0.7);
                if (use_full && r.chance(0.15)) {
                    static const char *bad[] = {"furlong", "parsecs", "foo", "m V", "mVs??"}; un = r.pick(bad);
                    c.op(std::string("appendSampledDimension non-SI-unit") + (ic == 0 ? "" : " illegal-interval") + " | " + un);
                    bool thr = false; try { a.appendSampledDimension(iv, lbl, un, off); } catch (std::exception &) { thr = true; }
                    c.check(thr, "C13/illegal-accepted/appendSampledDimension/non-SI-unit", "appendSampledDimension accepted unit '" + un + "'");
                    if (!thr) { MD d; d.kind = DimensionType::Sample; d.interval = iv; if (!lbl.empty()) d.label = lbl; d.unit = un; if (off != 0.0) d.offset = off; m.push_back(d); }
                    break;
                }
                c.op(std::string("appendSampledDimension ") + (ic == 0 ? "legal-interval" : ic == 1 ? "zero-interval" : "negative-interval") + (oc == 2 ? " negative-offset" : oc == 0 ? " zero-offset" : " positive-offset") + " | iv=" + dstr(iv) + " off=" + dstr(off));
                bool threw = false; try { if (use_full) a.appendSampledDimension(iv, lbl, un, off); else a.appendSampledDimension(iv); } catch (std::exception &) { threw = true; }
                if (ic != 0) { c.check(threw, std::string("C13/illegal-accepted/appendSampledDimension/") + (ic == 1 ? "zero-interval" : "negative-interval"), "appendSampledDimension accepted interval " + dstr(iv)); if (!threw) { MD d; d.kind = DimensionType::Sample; d.interval = iv; if (use_full) { if (!lbl.empty()) d.label = lbl; if (!un.empty()) d.unit = un; if (off != 0.0) d.offset = off; } m.push_back(d); } }
                else if (threw) c.check(false, "C13/legal-rejected/appendSampledDimension", "legal appendSampledDimension threw");
                else { MD d; d.kind = DimensionType::Sample; d.interval = iv; if (use_full) { if (!lbl.empty()) d.label = lbl; if (!un.empty()) d.unit = un; if (off != 0.0) d.offset = off; } m.push_back(d); }
                break; }
            case 1: {   // append range
                bool legal = r.chance(0.8); std::vector<double> t = gen_ticks(legal); if (!legal && sorted(t)) legal = true;
                std::string lbl = r.chance(0.5) ? gen_label() : "", un = r.chance(0.5) ? "mV" : "";
                if (r.chance(0.15)) {   // a refused append (non-SI unit) leaves the descriptor list as it was: compare() below sees a half-built descriptor
                    static const char *bad[] = {"furlong", "parsecs", "foo", "m V", "mVs??"}; un = r.pick(bad);
                    c.op(std::string("appendRangeDimension non-SI-unit") + (legal ? "" : " unsorted-ticks") + " | " + un);
                    bool thr = false; try { a.appendRangeDimension(t, lbl, un); } catch (std::exception &) { thr = true; }
                    c.check(thr, "C13/illegal-accepted/appendRangeDimension/non-SI-unit", "appendRangeDimension accepted unit '" + un + "'");
                    if (!thr) { MD d; d.kind = DimensionType::Range; d.ticks = t; if (!lbl.empty()) d.label = lbl; d.unit = un; m.push_back(d); }
                    break;
                }
                c.op(std::string("appendRangeDimension ") + (legal ? "sorted-ticks" : "unsorted-ticks") + " | " + vD(t));
                bool threw = false; try { a.appendRangeDimension(t, lbl, un); } catch (std::exception &) { threw = true; }
                if (!legal) c.check(threw, "C13/illegal-accepted/appendRangeDimension/unsorted-ticks", "appendRangeDimension accepted unsorted ticks " + vD(t));
                else if (threw) c.check(false, "C13/legal-rejected/appendRangeDimension", "legal appendRangeDimension threw");
                if (!threw) { MD d; d.kind = DimensionType::Range; d.ticks = t; if (!lbl.empty()) d.label = lbl; if (!un.empty()) d.unit = un; m.push_back(d); }
                break; }
            case 2: { std::vector<std::string> l; size_t n = r.u(5); for (size_t i = 0; i < n; i++) l.push_back("L" + str(i) + (r.chance(0.2) ? "\xc3\xa4" : "")); c.op("appendSetDimension | labels=" + str(n)); a.appendSetDimension(l); MD d; d.kind = DimensionType::Set; d.labels = l; m.push_back(d); break; }
            case 3: {   // data-frame dimension
                DataFrame df = r.pick(frames); unsigned nc = (unsigned)df.columns().size(); int how = (int)r.u(4);
                MD d; d.kind = DimensionType::DataFrame; d.frame_id = df.id();
                if (how == 0) { c.op("appendDataFrameDimension no-column"); a.appendDataFrameDimension(df); }
                else if (how == 1) { unsigned col = (unsigned)r.u(nc); c.op("appendDataFrameDimension column-index"); a.appendDataFrameDimension(df, col); d.column = col; }
                else if (how == 2) { unsigned col = (unsigned)r.u(nc); c.op("appendDataFrameDimension column-name"); a.appendDataFrameDimension(df, df.colName(col)); d.column = col; }
                else { c.op("appendDataFrameDimension column-out-of-range"); bool threw = false; try { a.appendDataFrameDimension(df, nc + 1 + (unsigned)r.u(3)); } catch (std::exception &) { threw = true; } c.check(threw, "C13/illegal-accepted/appendDataFrameDimension/column-out-of-range", "column index beyond the frame accepted"); if (threw) break; }
                m.push_back(d); break; }
            case 4: {   // setters on a random descriptor
                if (m.empty()) break; size_t i = r.u(m.size()); MD &w = m[i]; Dimension d = a.getDimension(i + 1);
                if (w.kind == DimensionType::Sample) { SampledDimension s = d.asSampledDimension(); int q = (int)r.u(8);
                    if (q == 0) { double iv = std::ldexp(0.5 + r.real(), (int)r.range(-6, 6)); c.op("SampledDimension::samplingInterval legal"); s.samplingInterval(iv); w.interval = iv; }
                    else if (q == 1) { double iv = r.chance(0.5) ? 0.0 : -1.5; c.op("SampledDimension::samplingInterval illegal"); bool threw = false; try { s.samplingInterval(iv); } catch (std::exception &) { threw = true; } c.check(threw, "C13/illegal-accepted/samplingInterval", "setter accepted interval " + dstr(iv)); if (!threw) w.interval = iv; }
                    else if (q == 2) { double off = (double)r.range(-8, 8) * 0.125; c.op("SampledDimension::offset"); s.offset(off); w.offset = off; }
                    else if (q == 3) { c.op("SampledDimension::offset none"); s.offset(boost::none); w.offset = boost::none; }
                    else if (q == 4) { std::string l = gen_label(); c.op("SampledDimension::label"); s.label(l); w.label = l; }
                    else if (q == 5) { c.op("SampledDimension::label none"); s.label(nix::none); w.label = boost::none; }
                    else if (q == 6) { std::string u = r.chance(0.8) ? "s" : "kHz"; c.op("SampledDimension::unit"); s.unit(u); w.unit = u; }
                    else { if (r.chance(0.5)) { c.op("SampledDimension::unit none"); s.unit(nix::none); w.unit = boost::none; } else { c.op("SampledDimension::unit non-SI"); bool threw = false; try { s.unit("parsecs"); } catch (std::exception &) { threw = true; } c.check(threw, "C13/illegal-accepted/unit", "non-SI unit accepted"); if (!threw) w.unit = std::string("parsecs"); } }
                } else if (w.kind == DimensionType::Range && !w.alias) { RangeDimension s = d.asRangeDimension(); int q = (int)r.u(6);
                    if (q == 0) { std::vector<double> t = gen_ticks(true); c.op("RangeDimension::ticks sorted"); s.ticks(t); w.ticks = t; }
                    else if (q == 1) { std::vector<double> t = gen_ticks(false); if (sorted(t)) break; c.op("RangeDimension::ticks unsorted"); bool threw = false; try { s.ticks(t); } catch (std::exception &) { threw = true; } c.check(threw, "C13/illegal-accepted/ticks-setter", "setter accepted unsorted ticks"); if (!threw) w.ticks = t; }
                    else if (q == 2) { std::string l = gen_label(); c.op("RangeDimension::label"); s.label(l); w.label = l; }
                    else if (q == 3) { c.op("RangeDimension::label none"); s.label(nix::none); w.label = boost::none; }
                    else if (q == 4) { c.op("RangeDimension::unit"); s.unit("ms"); w.unit = std::string("ms"); }
                    else { c.op("RangeDimension::unit none"); s.unit(nix::none); w.unit = boost::none; }
                } else if (w.kind == DimensionType::Set) { SetDimension s = d.asSetDimension(); int q = (int)r.u(4);
                    if (q == 0) { std::vector<std::string> l; size_t n = 1 + r.u(4); for (size_t j = 0; j < n; j++) l.push_back("M" + str(j)); c.op("SetDimension::labels"); s.labels(l); w.labels = l; }
                    else if (q == 1) { c.op("SetDimension::labels none"); s.labels(boost::none); w.labels.clear(); }
                    else if (q == 2) { std::string l = gen_label(); c.op("SetDimension::label"); s.label(l); w.label = l; }
                    else { c.op("SetDimension::label none"); s.label(nix::none); w.label = boost::none; }
                }
                break; }
            case 7: {   // an alias dimension is the only descriptor of its array: with descriptors present the append is refused, nothing is replaced
                if (m.empty()) break; c.op("appendAliasRangeDimension on-array-with-descriptors | " + str(m.size()));
                bool threw = false; try { a.appendAliasRangeDimension(); } catch (std::exception &) { threw = true; }
                c.check(threw, "C13/illegal-accepted/appendAliasRangeDimension/descriptors-present", "appendAliasRangeDimension accepted on an array that already has " + str(m.size()) + " descriptor(s)");
                break; }
            case 5: { c.op("deleteDimensions"); bool ok = a.deleteDimensions(); m.clear(); c.check(ok && a.dimensionCount() == 0 && a.dimensions().empty(), "C13/deleteDimensions-leaves-some", "dimensions remain after deleteDimensions"); break; }
            case 6: { c.op("close+reopen"); std::string an = a.name(); a = nix::none; other = nix::none; b = nix::none; frames.clear(); f.close(); f = File::open(path, r.chance(0.5) ? FileMode::ReadWrite : FileMode::ReadOnly); b = f.getBlock("b"); a = b.getDataArray(an); compare("after reopen");
                if (f.fileMode() == FileMode::ReadOnly) { a = nix::none; other = nix::none; b = nix::none; f.close(); f = File::open(path, FileMode::ReadWrite); b = f.getBlock("b"); a = b.getDataArray(an); } for (auto &x : b.dataFrames()) frames.push_back(x); break; }
            }
        } catch (std::exception &e) { c.check(false, "C13/legal-op-threw/op" + str(k), std::string("valid operation threw: ") + e.what()); }
        compare("after op"); c.fp(str(k));
    }

    void run_plain() {
        path = c.path("c13.nix"); f = File::open(path, FileMode::Overwrite); b = f.createBlock("b", "t");
        for (int i = 0; i < 2; i++) { DataFrame df = b.createDataFrame("df" + str(i), "t", {{"name", "", DataType::String}, {"v", "mV", DataType::Double}, {"k", "s", DataType::Int64}}); df.rows(3); frames.push_back(df); }
        static const DataType ts[] = {DataType::Double, DataType::Int8, DataType::String, DataType::Bool, DataType::UInt64, DataType::Float, DataType::Int32};
        size_t R = 1 + r.u(4); std::vector<long> shape(R); for (auto &e : shape) e = 1 + (long)r.u(4);
        DataType dt = r.pick(ts); c.fp("P" + dtname(dt) + str(R));
        a = b.createDataArray("arr", "t", dt, to_nd(shape));
        int n = (int)r.range(12, 30); for (int i = 0; i < n; i++) op();
        a = nix::none; other = nix::none; b = nix::none; frames.clear(); f.close();
    }
    // interleaved writes through the alias dimension and through the array
    void run_alias() {
        path = c.path("c13a.nix"); f = File::open(path, FileMode::Overwrite); b = f.createBlock("b", "t");
        static const DataType ts[] = {DataType::Double, DataType::Float, DataType::Int32, DataType::Int64, DataType::UInt8, DataType::Int16};
        DataType dt = r.pick(ts); c.fp("A" + dtname(dt));
        auto int_ticks = [&] { std::vector<double> t; size_t n = 1 + r.u(9); double x = (double)r.range(0, 20); for (size_t i = 0; i < n; i++) { t.push_back(x); x += (double)(1 + r.u(9)); } return t; };   // exactly representable in every element type used
        std::vector<double> init = int_ticks();
        a = b.createDataArray("alias", "t", dt, NDSize{(ndsize_t)init.size()}); a.setData(DataType::Double, init.data(), NDSize{(ndsize_t)init.size()}, NDSize{0});
        MD w; w.kind = DimensionType::Range; w.alias = true; w.ticks = init;
        if (r.chance(0.5)) { a.unit("mV"); w.unit = std::string("mV"); } if (r.chance(0.5)) { a.label("signal"); w.label = std::string("signal"); }
        c.op("appendAliasRangeDimension " + dtname(dt)); a.appendAliasRangeDimension(); m.push_back(w);
        compare("after appendAlias");
        int n = (int)r.range(10, 25);
        for (int i = 0; i < n; i++) {
            MD &x = m[0]; RangeDimension rd = a.getDimension(1).asRangeDimension(); int q = (int)r.u(11);
            try {
                if (q == 0) { std::vector<double> t = int_ticks(); c.op("alias ticks-through-dimension " + std::string(t.size() < x.ticks.size() ? "shorter" : t.size() > x.ticks.size() ? "longer" : "same-length")); rd.ticks(t); x.ticks = t; }
                else if (q == 1) { std::vector<double> t = int_ticks(); c.op("alias data-through-array setData " + std::string(t.size() < x.ticks.size() ? "shorter" : t.size() > x.ticks.size() ? "longer" : "same-length")); a.setData(t); x.ticks = t; }
                else if (q == 2) { std::vector<double> t = gen_ticks(false); if (sorted(t)) continue; c.op("alias ticks-through-dimension unsorted"); bool threw = false; try { rd.ticks(t); } catch (std::exception &) { threw = true; } c.check(threw, "C13/illegal-accepted/alias-ticks-setter", "alias dimension accepted unsorted ticks"); if (!threw) x.ticks = t; }
                else if (q == 3) { std::string l = gen_label(); c.op("alias label-through-dimension"); rd.label(l); x.label = l; }
                else if (q == 4) { std::string l = gen_label(); c.op("alias label-through-array"); a.label(l); x.label = l; }
                else if (q == 5) { std::string u = r.chance(0.5) ? "ms" : "uV"; c.op("alias unit-through-dimension"); rd.unit(u); x.unit = u; }
                else if (q == 6) { std::string u = r.chance(0.5) ? "s" : "mA"; c.op("alias unit-through-array"); a.unit(u); x.unit = u; }
                else if (q == 7) { c.op("alias unit non-SI through-array"); bool threw = false; try { a.unit("furlongs"); } catch (std::exception &) { threw = true; } c.check(threw, "C13/illegal-accepted/alias-array-unit", "non-SI unit accepted on an aliased array"); if (!threw) x.unit = std::string("furlongs"); }
                else if (q == 8) { if (r.chance(0.5)) { c.op("alias label none through-dimension"); rd.label(nix::none); } else { c.op("alias label none through-array"); a.label(nix::none); } x.label = boost::none; }
                else if (q == 9) { std::vector<long> ns = {(long)x.ticks.size() + (long)r.range(-2, 3)}; if (ns[0] < 1) ns[0] = 1; c.op("alias dataExtent-through-array"); a.dataExtent(to_nd(ns)); size_t old = x.ticks.size(); x.ticks.resize((size_t)ns[0], 0.0); if ((size_t)ns[0] > old && old > 0 && x.ticks[old - 1] > 0.0) { /* grown cells read as zero: the alias axis is then not ascending, which the array entry point allows - not judged */ std::vector<double> t = int_ticks(); a.setData(t); x.ticks = t; } }
                else { c.op("close+reopen"); a = nix::none; other = nix::none; b = nix::none; f.close(); f = File::open(path, FileMode::ReadWrite); b = f.getBlock("b"); a = b.getDataArray("alias"); }
            } catch (std::exception &e) { c.check(false, "C13/alias/legal-op-threw", std::string("valid alias operation threw: ") + e.what()); }
            compare("alias op"); c.fp(str(q));
        }
        if (r.chance(0.5)) { c.op("deleteDimensions"); a.deleteDimensions(); m.clear(); c.check(a.dimensionCount() == 0, "C13/deleteDimensions-leaves-some", "alias dimension remains"); std::vector<double> back; a.getData(back); c.count("alias_deleted"); }
        a = nix::none; other = nix::none; b = nix::none; f.close();
    }
};
void run_case(Ctx &c) { H h(c); if (c.index % 3 == 2) h.run_alias(); else h.run_plain(); c.nontrivial = c.checks > 20; }
long ncases(const std::string &tier) { return tier == "quick" ? 400 : 10000; }
std::vector<std::string> witnesses() { return {"d9-append-accepts-illegal"}; }
void run_witness(Ctx &c, const std::string &name) {
    H h(c); h.path = c.path("w.nix"); h.f = File::open(h.path, FileMode::Overwrite); h.b = h.f.createBlock("b", "t"); h.a = h.b.createDataArray("arr", "t", DataType::Double, NDSize{3, 3, 3, 3});
    if (name == "d9-append-accepts-illegal") {
        c.op("appendRangeDimension unsorted-ticks"); bool threw = false; try { h.a.appendRangeDimension({3.0, 1.0, 2.0}); } catch (std::exception &) { threw = true; } c.check(threw, "C13/illegal-accepted/appendRangeDimension/unsorted-ticks", "accepted {3,1,2}"); if (!threw) { MD d; d.kind = DimensionType::Range; d.ticks = {3.0, 1.0, 2.0}; h.m.push_back(d); }
        for (double iv : {0.0, -2.0}) { c.op("appendSampledDimension illegal-interval"); threw = false; try { h.a.appendSampledDimension(iv); } catch (std::exception &) { threw = true; } c.check(threw, std::string("C13/illegal-accepted/appendSampledDimension/") + (iv == 0.0 ? "zero-interval" : "negative-interval"), "accepted " + dstr(iv)); if (!threw) { MD d; d.kind = DimensionType::Sample; d.interval = iv; h.m.push_back(d); } }
        if (h.m.size() < 4) { c.op("appendSampledDimension legal-interval negative-offset"); h.a.appendSampledDimension(0.5, "", "", -0.25); MD d; d.kind = DimensionType::Sample; d.interval = 0.5; d.offset = -0.25; h.m.push_back(d); }
        h.compare("witness");
    }
    c.nontrivial = true; h.a = nix::none; h.other = nix::none; h.b = nix::none; h.f.close();
}
Reg reg({"C13", ncases, run_case, witnesses, run_witness, 120});
}  // namespace
