// C02 - close and reopen preserves the complete entity tree.
#include "core/core.hpp"
#include "core/graph.hpp"
#include <sys/wait.h>
using namespace vm;
using namespace nix;

namespace {

// observe the file from a second process (opens ReadOnly), returns the flattened tree
bool observe_in_child(const std::string &path, std::vector<std::string> &lines, std::string &err) {
    int fd[2]; if (pipe(fd) != 0) { err = "pipe"; return false; }
    fflush(nullptr); pid_t pid = fork();
    if (pid == 0) {
        close(fd[0]); std::string out;
        setenv("TZ", "JST-9", 1); tzset();   // the other process may live in another time zone: stored times are absolute
        try { File f = File::open(path, FileMode::ReadOnly); Observer ob; ONode t = ob.file(f); for (auto &l : flatten(t)) { out += l; out += '\n'; } f.close(); }
        catch (std::exception &e) { out = std::string("<child-exception:") + e.what() + ">\n"; }
        size_t off = 0; while (off < out.size()) { ssize_t w = write(fd[1], out.data() + off, out.size() - off); if (w <= 0) break; off += (size_t)w; }
        close(fd[1]); _exit(0);
    }
    close(fd[1]); std::string buf; char tmp[65536]; ssize_t n; while ((n = read(fd[0], tmp, sizeof tmp)) > 0) buf.append(tmp, (size_t)n); close(fd[0]);
    int st = 0; waitpid(pid, &st, 0);
    if (!WIFEXITED(st) || WEXITSTATUS(st) != 0) { err = "observer process died (status " + str(st) + ")"; return false; }
    size_t a = 0; while (a < buf.size()) { size_t b = buf.find('\n', a); if (b == std::string::npos) b = buf.size(); lines.push_back(buf.substr(a, b - a)); a = b + 1; }
    return true;
}

std::string lines_diff(const std::vector<std::string> &x, const std::vector<std::string> &y) {
    size_t n = std::min(x.size(), y.size());
    for (size_t i = 0; i < n; i++) if (x[i] != y[i]) return "first difference at line " + str(i) + ":\n  before: " + x[i].substr(0, 400) + "\n  after:  " + y[i].substr(0, 400);
    if (x.size() != y.size()) return "trees differ in size: " + str(x.size()) + " vs " + str(y.size()) + " lines; first extra: " + (x.size() > n ? "before: " + x[n] : "after: " + y[n]).substr(0, 400);
    return "";
}

// a handle the application obtained earlier and kept: what it shows before the close is part of "what was observable before closing"
struct Held { std::string kind, id, block_id; std::function<ONode(Observer &)> view; std::function<bool()> valid; };

void reopen_point(Ctx &c, Graph &g, const std::string &after, std::vector<Held> &held) {
    // unobserved: the writing session closes without having looked at its own content (the pre-close snapshot calls every getter, which would hide
    // state that only a getter brings into existence); then what a ReadOnly session reads must be what a ReadWrite session reads
    bool unobserved = c.rng.chance(0.25); if (unobserved) c.count("unobserved_closes");
    Observer ob; ONode t0; if (!unobserved) t0 = ob.file(g.f); size_t nodes = unobserved ? 0 : count_nodes(t0); ONode t_ro;
    // entity handles of the closing session may still be alive while the file is reopened (kept until the end of this function)
    std::vector<Block> hb; std::vector<DataArray> ha; std::vector<Section> hs;
    auto grab = [&] { if (!c.rng.chance(0.5)) return; try { Block b; if (g.anyBlock(b)) { hb.push_back(b); DataArray a; if (g.anyArray(b, a)) ha.push_back(a); } Section s; if (g.anySection(s)) hs.push_back(s); } catch (...) {} };
    grab();
    // the views through long-kept handles, taken before the close; compared below with the node of the same id after the reopen
    std::vector<std::pair<std::string, ONode>> held_views;
    if (!unobserved) for (auto &h : held) { try { if (!h.valid()) continue; Observer oh; ONode v = h.view(oh); if (!v.id.empty() && find_node(t0, v.id)) held_views.emplace_back(h.kind, v); } catch (std::exception &) {} }
    held.clear();
    c.op("close | after " + after + ", " + str(nodes) + " nodes, live handles " + str(hb.size() + ha.size() + hs.size()));
    g.close();
    advance_clock(2 + (long)c.rng.u(5));   // the next session starts seconds later: a timestamp that is re-stamped on open becomes visible
    // sometimes the file is reopened under another name of the same file (a symbolic link)
    std::string real_path = g.path, link_path = g.path + ".lnk"; bool via_link = c.rng.chance(0.15);
    if (via_link) { unlink(link_path.c_str()); if (symlink(real_path.c_str(), link_path.c_str()) != 0) via_link = false; }
    for (FileMode m : {FileMode::ReadOnly, FileMode::ReadWrite}) {
        const char *mn = m == FileMode::ReadOnly ? "ReadOnly" : "ReadWrite";
        c.op(std::string("reopen ") + mn + (via_link ? " via-symlink" : ""));
        if (via_link) g.path = link_path;
        try { g.open(m); g.path = real_path; } catch (std::exception &e) { g.path = real_path; c.check(false, std::string("C02/reopen-failed/") + mn, std::string("reopen threw: ") + e.what() + " (live handles of the previous session: " + str(hb.size() + ha.size() + hs.size()) + (via_link ? ", via symlink" : "") + ")"); if (m == FileMode::ReadWrite) { hb.clear(); ha.clear(); hs.clear(); g.open(FileMode::ReadWrite); } else continue; return; }
        Observer o2; ONode t1 = o2.file(g.f);
        if (unobserved) { if (m == FileMode::ReadOnly) { t_ro = t1; grab(); g.close(); continue; } std::string du = tree_diff(t_ro, t1); c.check(du.empty(), "C02/tree-changed/ReadOnly-vs-ReadWrite-after-unobserved-close", [&] { return du + "\n(before = what the ReadOnly session read, after = what the ReadWrite session read; last operation before close: " + after + ")"; }); t0 = t1; nodes = count_nodes(t0); c.count("reopen_comparisons"); continue; }
        std::string d = tree_diff(t0, t1);
        c.check(d.empty(), std::string("C02/tree-changed/") + mn, [&] { return d + "\n(" + str(nodes) + " nodes, last operation before close: " + after + ")"; });
        c.count("reopen_comparisons"); c.count("nodes_compared", (long)nodes); c.count("getters_called", o2.getters);
        for (auto &hv : held_views) { const ONode *n1 = find_node(t1, hv.second.id); std::string dh = n1 ? tree_diff(hv.second, *n1) : std::string("entity " + hv.second.id + " shown by the kept handle is absent after the reopen");
            c.check(dh.empty(), "C02/kept-handle-view/" + hv.first + "/" + mn, [&] { return dh + "\n(before = what a " + hv.first + " handle obtained earlier in the session showed right before close, after = the reopened file; last operation before close: " + after + ")"; }); c.count("kept_handle_views_compared"); }
        if (m == FileMode::ReadOnly) { grab(); g.close(); }   // handles of the read-only session may outlive it as well
    }
    if (c.rng.chance(0.25)) {   // a second process must see the same tree (the writer holds the file open read-write: close first)
        g.close(); std::vector<std::string> lines; std::string err;
        c.op("observe-from-second-process");
        if (!observe_in_child(g.path, lines, err)) c.check(false, "C02/second-process/failed", err);
        else { std::string d = lines_diff(flatten(t0), lines); c.check(d.empty(), "C02/tree-changed/second-process", d); c.count("second_process_comparisons"); }
        g.open(FileMode::ReadWrite);
    }
}

void run_case(Ctx &c) {
    Graph g(c); g.create(c.path("c02.nix"));
    int nops = (int)c.rng.range(30, 60); std::string last = "create";
    // long-lived handles, as an application keeps them: while one is open HDF5 serves that object from its caches, so what the session reads
    // is not necessarily what reached the file (released at the next reopen point, after the snapshot)
    std::vector<Property> long_props; std::vector<DataArray> long_arrays; std::vector<Held> held;
    auto keep = [&] {   // obtain a handle now, look at everything it shows (whatever an implementation remembers per handle is now remembered), keep it
        try { Block b; if (!g.anyBlock(b)) return; Held h; int k = (int)c.rng.u(8);
            if (k == 0) { DataArray a; if (!g.anyArray(b, a)) return; h.kind = "data_array"; h.view = [a](Observer &o) { return o.array(a); }; h.valid = [a] { return a.isValidEntity(); }; }
            else if (k == 1) { Tag t; if (!g.anyTag(b, t)) return; h.kind = "tag"; h.view = [t](Observer &o) { return o.tag(t); }; h.valid = [t] { return t.isValidEntity(); }; }
            else if (k == 2) { MultiTag t; if (!g.anyMTag(b, t)) return; h.kind = "multi_tag"; h.view = [t](Observer &o) { return o.mtag(t); }; h.valid = [t] { return t.isValidEntity(); }; }
            else if (k == 3) { Source t; if (!g.anySource(b, t)) return; h.kind = "source"; h.view = [t](Observer &o) { return o.source(t); }; h.valid = [t] { return t.isValidEntity(); }; }
            else if (k == 4) { Group t; if (!g.anyGroup(b, t)) return; h.kind = "group"; h.view = [t](Observer &o) { return o.group(t); }; h.valid = [t] { return t.isValidEntity(); }; }
            else if (k == 5) { DataFrame t; if (!g.anyFrame(b, t)) return; h.kind = "data_frame"; h.view = [t](Observer &o) { return o.frame(t); }; h.valid = [t] { return t.isValidEntity(); }; }
            else if (k == 6) { Section t; if (!g.anySection(t)) return; h.kind = "section"; h.view = [t](Observer &o) { return o.section(t); }; h.valid = [t] { return t.isValidEntity(); }; }
            else { h.kind = "block"; h.view = [b](Observer &o) { return o.block(b); }; h.valid = [b] { return b.isValidEntity(); }; }
            Observer o; ONode first = h.view(o); h.id = first.id; h.block_id = b.id(); if (held.size() < 12) held.push_back(h); c.count("kept_handles");
        } catch (std::exception &) {} };
    // ... and the entity behind a kept handle is changed through ANOTHER, freshly looked-up handle (links re-pointed, members added and removed)
    auto poke = [&](const Held &h) {
        try { Rng &r = c.rng; Block b = g.f.getBlock(h.block_id); if (!b || h.id.empty()) return; Section se; bool hs = g.anySection(se); Source so; bool hso = g.anySource(b, so); DataArray oa; bool hoa = g.anyArray(b, oa); int q = (int)r.u(4);
            c.op("change behind a kept " + h.kind + " handle | " + str(q));
            if (h.kind == "data_array") { DataArray a = b.getDataArray(h.id); if (!a) return; if (q == 0 && hs) a.metadata(se); else if (q == 1) a.metadata(nix::none); else if (q == 2 && hso) { if (a.hasSource(so)) a.removeSource(so); else a.addSource(so); } else { a.label("behind " + str(r.u(100))); if (a.dimensionCount() == 0) a.appendSetDimension({"x", "y"}); } }
            else if (h.kind == "tag") { Tag t = b.getTag(h.id); if (!t) return; if (q == 0 && hs) t.metadata(se); else if (q == 1 && hoa) { if (t.hasReference(oa)) t.removeReference(oa); else t.addReference(oa); } else if (q == 2 && hso) { if (t.hasSource(so)) t.removeSource(so); else t.addSource(so); } else if (hoa) t.createFeature(oa, LinkType::Untagged); }
            else if (h.kind == "multi_tag") { MultiTag t = b.getMultiTag(h.id); if (!t) return; if (q == 0 && hs) t.metadata(se); else if (q == 1 && hoa) { if (t.hasReference(oa)) t.removeReference(oa); else t.addReference(oa); } else if (q == 2 && hso) { if (t.hasSource(so)) t.removeSource(so); else t.addSource(so); } else t.definition("behind " + str(r.u(100))); }
            else if (h.kind == "group") { Group gr = b.getGroup(h.id); if (!gr) return; if (q == 0 && hs) gr.metadata(se); else if (hoa) { if (gr.hasDataArray(oa)) gr.removeDataArray(oa); else gr.addDataArray(oa); } }
            else if (h.kind == "block") { if (q == 0 && hs) b.metadata(se); else if (q == 1) b.metadata(nix::none); else b.createSource(g.name(), "t"); }
            else if (h.kind == "section") { Section t; std::vector<Section> all = g.f.findSections(util::IdFilter<Section>(h.id)); if (all.empty()) return; t = all[0]; if (q == 0 && hs && se.id() != t.id()) t.link(se); else if (q == 1) t.link(nix::none); else if (q == 2) t.createProperty(g.name(), Variant(1.5)); else t.repository("behind " + str(r.u(100))); }
            else if (h.kind == "source") { std::vector<Source> all = b.findSources(util::IdFilter<Source>(h.id)); if (all.empty()) return; Source t = all[0]; if (q == 0 && hs) t.metadata(se); else if (q == 1) t.createSource(g.name(), "t"); else t.definition("behind " + str(r.u(100))); }
            c.count("changes_behind_kept_handles");
        } catch (std::exception &) {} };
    for (int i = 0; i < nops; i++) {
        if (c.rng.chance(0.25)) keep();
        if (!held.empty() && c.rng.chance(0.3)) poke(held[c.rng.u(held.size())]);
        if (c.rng.chance(0.3)) { try { Section s; if (g.anySection(s) && s.propertyCount()) long_props.push_back(s.getProperty(c.rng.u(s.propertyCount()))); Block b; DataArray a; if (c.rng.chance(0.5) && g.anyBlock(b) && g.anyArray(b, a)) long_arrays.push_back(a); c.count("long_lived_handles");
            if (!long_props.empty() && c.rng.chance(0.6)) { Property lp = c.rng.pick(long_props); if (lp.isValidEntity()) { c.op("values through a long-lived property handle"); lp.values(g.gen_values(lp.dataType(), 2 + c.rng.u(4))); } } } catch (...) {} }
        g.step();
        last = c.trace_head.empty() ? "?" : (c.nops <= (long)c.trace_head.size() ? c.trace_head.back() : "op" + str(c.nops));
        if (c.rng.chance(0.06)) { c.op("flush"); g.f.flush(); }
        if (c.rng.chance(0.08)) { reopen_point(c, g, last, held); long_props.clear(); long_arrays.clear(); }
    }
    reopen_point(c, g, last, held); long_props.clear(); long_arrays.clear();
    c.nontrivial = c.nops > 20;
    g.close();
}
long ncases(const std::string &tier) { return tier == "quick" ? 200 : 5000; }
std::vector<std::string> witnesses() { return {}; }
void run_witness(Ctx &, const std::string &) {}
Reg reg({"C02", ncases, run_case, witnesses, run_witness, 120});
}  // namespace
