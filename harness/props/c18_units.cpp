// C18 - unit scaling is exact, reciprocal and transparent to retrieval.
#include "core/core.hpp"
#include "core/retrieval.hpp"
using namespace vm;
using namespace nix;

namespace {
const std::vector<std::pair<std::string, int>> PREFIXES = {{"", 0}, {"Y", 24}, {"Z", 21}, {"E", 18}, {"P", 15}, {"T", 12}, {"G", 9}, {"M", 6}, {"k", 3}, {"h", 2}, {"da", 1},
    {"d", -1}, {"c", -2}, {"m", -3}, {"u", -6}, {"n", -9}, {"p", -12}, {"f", -15}, {"a", -18}, {"z", -21}, {"y", -24}};
const std::vector<std::string> BASES = {"m", "g", "s", "A", "K", "mol", "cd", "Hz", "N", "Pa", "J", "W", "C", "V", "F", "S", "Wb", "T", "H", "lm", "lx", "Bq", "Gy", "Sv", "kat", "l", "L", "Ohm", "%", "dB", "rad"};
const std::vector<int> POWERS = {0, 1, 2, 3, -1, -2, -3};   // 0 = no power suffix

std::string mk(const std::string &pre, const std::string &base, int pw) { return pre + base + (pw == 0 ? "" : "^" + std::to_string(pw)); }

// independent grammar check: prefix? unit (^[+-]?[1-9][0-9]*)?
bool my_atomic(const std::string &s) {
    for (auto &p : PREFIXES) { if (s.compare(0, p.first.size(), p.first) != 0) continue;
        for (auto &b : BASES) { if (s.compare(p.first.size(), b.size(), b) != 0) continue;
            std::string rest = s.substr(p.first.size() + b.size()); if (rest.empty()) return true;
            if (rest[0] != '^') continue; size_t i = 1; if (i < rest.size() && (rest[i] == '+' || rest[i] == '-')) i++;
            if (i >= rest.size() || rest[i] < '1' || rest[i] > '9') continue; bool ok = true; for (size_t k = i; k < rest.size(); k++) ok = ok && isdigit((unsigned char)rest[k]); if (ok) return true; } }
    return false;
}
bool my_si(const std::string &s) {
    if (s.empty()) return false; size_t a = 0; int parts = 0;
    for (size_t i = 0; i <= s.size(); i++) if (i == s.size() || s[i] == '*' || s[i] == '/') { if (!my_atomic(s.substr(a, i - a))) return false; a = i + 1; parts++; }
    return parts >= 1;
}
bool rel_close(double got, double want) { return std::fabs(got - want) <= 64 * DBL_EPSILON * std::fabs(want); }

// ------------------------------------------------------------------ (a) grammar sweep for one base unit
void grammar_case(Ctx &c, size_t base_idx, bool all_powers) {
    Rng &r = c.rng; const std::string &base = BASES[base_idx];
    c.fp("G" + base);
    for (int pw : POWERS) {
        if (!all_powers && pw != 0 && !r.chance(0.34)) continue;
        size_t P = PREFIXES.size(); std::vector<std::vector<double>> f(P, std::vector<double>(P, 0.0)); bool complete = true;
        for (size_t i = 0; i < P; i++) {
            std::string ua = mk(PREFIXES[i].first, base, pw);
            c.op("isSIUnit " + std::string(base.size() > 1 ? "multi-letter" : "single-letter") + (pw ? " power" : "") + " | " + ua);
            c.check(util::isSIUnit(ua) && util::isAtomicSIUnit(ua), "C18/grammar/si-unit-rejected", [&] { return ua + " is not accepted as SI unit"; });
            std::string sp, su, spow; util::splitUnit(ua, sp, su, spow);
            c.check(sp == PREFIXES[i].first && su == base && spow == (pw ? std::to_string(pw) : ""), "C18/grammar/split/" + std::string(base.size() > 1 ? "multi-letter" : "single-letter") + (pw ? "/power" : ""), [&] { return "splitUnit(" + ua + ") = prefix '" + sp + "' unit '" + su + "' power '" + spow + "'"; });
            for (size_t j = 0; j < P; j++) {
                std::string ub = mk(PREFIXES[j].first, base, pw);
                int e = (pw ? pw : 1) * (PREFIXES[i].second - PREFIXES[j].second); double want = std::pow(10.0, e);
                c.op("getSIScaling " + std::string(base.size() > 1 ? "multi-letter" : "single-letter") + (pw ? " power" : "") + " | " + ua + "->" + ub);
                bool sc_ab = util::isScalable(ua, ub), sc_ba = util::isScalable(ub, ua);
                c.check(sc_ab && sc_ba, "C18/scalable/same-base-rejected", [&] { return ua + " <-> " + ub + " isScalable=" + str(sc_ab) + "/" + str(sc_ba); });
                double got = 0; try { got = util::getSIScaling(ua, ub); } catch (std::exception &ex) { complete = false; c.check(false, "C18/factor/exception/" + std::string(base.size() > 1 ? "multi-letter" : "single-letter") + (pw ? "/power" : ""), ua + " -> " + ub + " threw " + ex.what()); continue; }
                f[i][j] = got;
                c.check(rel_close(got, want), "C18/factor/value" + std::string(pw ? "/power" : ""), [&] { return ua + " -> " + ub + " factor " + dstr(got) + " expected 1e" + str(e); });
                c.count("pairs");
            }
        }
        if (!complete) continue;
        // reciprocity and composition over the factor matrix the library produced
        for (size_t i = 0; i < P; i++) for (size_t j = 0; j < P; j++) {
            c.check(rel_close(f[i][j] * f[j][i], 1.0), "C18/factor/reciprocal", [&] { return mk(PREFIXES[i].first, base, pw) + " <-> " + mk(PREFIXES[j].first, base, pw) + " product " + dstr(f[i][j] * f[j][i]); });
            for (size_t k = 0; k < P; k++) { bool ok = rel_close(f[i][j] * f[j][k], f[i][k]) || std::fabs(f[i][k]) < 1e-300 || !std::isfinite(f[i][j] * f[j][k]); c.check(ok, "C18/factor/composition", [&] { return mk(PREFIXES[i].first, base, pw) + "->" + mk(PREFIXES[j].first, base, pw) + "->" + mk(PREFIXES[k].first, base, pw) + ": " + dstr(f[i][j] * f[j][k]) + " vs " + dstr(f[i][k]); }); c.count("triples"); }
        }
    }
    // different base unit or different power must be rejected (l and L are both litre: not judged)
    for (size_t ob = 0; ob < BASES.size(); ob++) {
        if (ob == base_idx) continue; const std::string &other = BASES[ob];
        if ((base == "l" && other == "L") || (base == "L" && other == "l")) continue;
        int pw = r.pick(POWERS); std::string ua = mk(r.pick(PREFIXES).first, base, pw), ub = mk(r.pick(PREFIXES).first, other, pw);
        c.op("getSIScaling cross-base | " + ua + "->" + ub);
        bool sc = util::isScalable(ua, ub) || util::isScalable(ub, ua); bool threw = false; try { util::getSIScaling(ua, ub); } catch (InvalidUnit &) { threw = true; } catch (std::exception &) { threw = true; }
        c.check(!sc && threw, "C18/reject/cross-base", [&] { return ua + " vs " + ub + ": isScalable=" + str(sc) + " getSIScaling threw=" + str(threw); });
        c.count("cross_base_pairs");
    }
    for (int k = 0; k < 12; k++) {
        int p1 = r.pick(POWERS), p2 = r.pick(POWERS); if (p1 == p2 || (p1 == 0 && p2 == 1) || (p1 == 1 && p2 == 0)) continue;
        std::string ua = mk(r.pick(PREFIXES).first, base, p1), ub = mk(r.pick(PREFIXES).first, base, p2);
        c.op("getSIScaling cross-power | " + ua + "->" + ub);
        bool sc = util::isScalable(ua, ub) || util::isScalable(ub, ua); bool threw = false; try { util::getSIScaling(ua, ub); } catch (std::exception &) { threw = true; }
        c.check(!sc && threw, "C18/reject/cross-power", [&] { return ua + " vs " + ub + ": isScalable=" + str(sc) + " threw=" + str(threw); });
    }
    // non-SI strings
    static const char *junk[] = {"", " ", "foo", "mVV", "m^0", "kk", "m^", "s^-0", "m s", "volt", "Mm^1.5", "^2", "km^", "kmm", "mk", "hh", "dad", "1m", "m1", "m^+", "m^-", "Hzz", "OhmOhm", "kOhmm", "%%", "mol^", "sec", "ms^2^2", "m^2^", "k", "da", "u", "mu", "µV", "mmmol", "radd", "dBm", "kkg", "gk", "Sv^", "W b"};
    for (int k = 0; k < 25; k++) {
        std::string s = r.chance(0.6) ? std::string(r.pick(junk)) : std::string();
        if (s.empty() && r.chance(0.9)) { size_t L = 1 + r.u(5); static const char alpha[] = "mkgsAVWbzZ^*/-+123%. xq"; for (size_t i = 0; i < L; i++) s += alpha[r.u(sizeof(alpha) - 1)]; }
        if (my_si(s)) continue;
        std::string good = mk(r.pick(PREFIXES).first, base, 0);
        c.op("isSIUnit non-SI | '" + s + "'");
        bool si = util::isSIUnit(s), sc = util::isScalable(s, good) || util::isScalable(good, s); bool threw = false; try { util::getSIScaling(s, good); } catch (std::exception &) { threw = true; }
        bool threw2 = false; try { util::getSIScaling(good, s); } catch (std::exception &) { threw2 = true; }
        c.check(!si && !sc && threw && threw2, "C18/reject/non-si", [&] { return "'" + s + "': isSIUnit=" + str(si) + " isScalable=" + str(sc) + " getSIScaling threw=" + str(threw) + "/" + str(threw2); });
        c.count("non_si_strings");
    }
}

// ------------------------------------------------------------------ (b) metamorphic retrieval
std::string prefixed(const std::string &unit, Rng &r) { static const char *pre[] = {"m", "k", "u", "M", "n", "c", "d", "h"}; return std::string(r.pick(pre)) + unit; }

void meta_case(Ctx &c) {
    Rng &r = c.rng; File f = File::open(c.path("c18.nix"), FileMode::Overwrite); Block b = f.createBlock("b", "t");
    c.fp("M");
    // both scaling directions between two prefixes of one base unit occur in the same process (array 0: axes in pa+base,
    // requests in pb+base; array 1: the other way round), so a factor that depends on what was converted earlier is seen
    static const char *bases[] = {"s", "V", "m", "A", "Hz", "T"}; static const char *prefs[] = {"", "m", "k", "u", "M", "n", "c", "d", "h", "T"};
    std::string base = r.pick(bases), pa = r.pick(prefs), pb = r.pick(prefs); while (pb == pa) pb = r.pick(prefs);
    if (r.chance(0.3)) { base = r.chance(0.6) ? "m" : "T"; pa = ""; pb = base; if (r.chance(0.5)) std::swap(pa, pb); }   // prefix letter == unit letter (mm, TT): the ambiguous corner of the grammar
    for (int ai = 0; ai < 3; ai++) {
        std::string axis_prefix = ai == 0 ? pa : ai == 1 ? pb : std::string(r.pick(prefs)), req_prefix = ai == 0 ? pb : ai == 1 ? pa : std::string(r.pick(prefs));
        size_t R = 1 + r.u(2); RArray A; A.shape.resize(R); for (auto &e : A.shape) e = 3 + (long)r.u(8);
        A.da = b.createDataArray("a" + str(ai), "t", DataType::Double, to_nd(A.shape)); long n = ArrayModel::nelms(A.shape); std::vector<double> lin((size_t)n); for (long i = 0; i < n; i++) lin[(size_t)i] = (double)i; A.da.setData(DataType::Double, lin.data(), to_nd(A.shape), NDSize(R, 0));
        static const double dts[] = {250.0, 1.0, 0.5, 1000.0, 0.25, 2.0, 125.0}; static const char *units[] = {"s", "V", "m", "A", "Hz"};
        for (size_t d = 0; d < R; d++) {
            Axis ax; ax.unit = d == 0 ? axis_prefix + base : std::string(r.pick(units));
            if (r.chance(0.6)) { ax.kind = Axis::Sampled; ax.dt = r.pick(dts); ax.off = r.chance(0.5) ? 0.0 : ax.dt * (double)r.range(-3, 3); SampledDimension sd = A.da.appendSampledDimension(ax.dt); sd.unit(ax.unit); if (ax.off != 0.0) sd.offset(ax.off); }
            else { ax.kind = Axis::Range; double t = (double)r.range(-5, 5) * 0.5; for (long i = 0; i < A.shape[d]; i++) { ax.ticks.push_back(t); t += r.pick(dts); } RangeDimension rd = A.da.appendRangeDimension(ax.ticks); rd.unit(ax.unit); }
            A.ax.push_back(ax); c.fp(ax.kname() + ax.unit + (ax.kind == Axis::Sampled ? hexd(ax.dt) + hexd(ax.off) : str(ax.ticks.size())));
        }
        for (int ti = 0; ti < (c.quick() ? 6 : 10); ti++) {
            // request in the axis units ...
            std::vector<double> p(R), e(R), p2(R), e2(R); std::vector<std::string> u1(R), u2(R); bool exact = true;
            for (size_t d = 0; d < R; d++) {
                const Axis &ax = A.ax[d]; long nn = A.shape[d]; long i = (long)r.u(nn), j = i + (long)r.u(nn - i);
                double step = ax.kind == Axis::Sampled ? ax.dt : 0.0; int cls = (int)r.u(3);
                p[d] = ax.x(i) + (cls == 1 ? step * 0.5 : 0.0); double q = ax.x(j) + (cls == 2 ? step * 0.5 : 0.0); e[d] = r.chance(0.15) ? 0.0 : q - p[d]; if (e[d] < 0) e[d] = 0.0;
                u1[d] = ax.unit; u2[d] = d == 0 ? req_prefix + base : prefixed(ax.unit, r);
                // ... and the same request in a prefix-scaled unit; judged only if rescaling is exact in double
                double fct = util::getSIScaling(u2[d], ax.unit); p2[d] = p[d] / fct; e2[d] = e[d] / fct;
                exact = exact && (p2[d] * fct == p[d]) && ((p2[d] + e2[d]) * fct == (p[d] + e[d])) && (e[d] == 0.0) == (e2[d] == 0.0);
            }
            if (!exact) { c.count("unjudged:rescaling-not-exact"); continue; }
            bool has_ext = r.chance(0.8);
            c.op("createTag metamorphic-pair | pos=" + dshow(p) + " ext=" + dshow(e) + " vs pos=" + dshow(p2));
            Tag t1 = b.createTag("t" + str(ai) + "_" + str(ti) + "a", "t", p), t2 = b.createTag("t" + str(ai) + "_" + str(ti) + "b", "t", p2);
            if (has_ext) { t1.extent(e); t2.extent(e2); } t1.units(u1); t2.units(u2); t1.addReference(A.da); t2.addReference(A.da);
            for (RangeMatch m : {RangeMatch::Inclusive, RangeMatch::Exclusive}) {
                c.op(std::string("taggedData metamorphic ") + rm_name(m));
                Got g1 = retrieve([&] { return util::taggedData(t1, A.da, m); }), g2 = retrieve([&] { return util::taggedData(t2, A.da, m); });
                bool same = g1.threw == g2.threw && g1.data == g2.data && g1.count == g2.count;
                c.check(same, std::string("C18/retrieval/tag/") + rm_name(m), [&] { return "request in " + u1[0] + " gave " + (g1.threw ? "exception " + g1.exc : dshow(g1.data)) + ", rescaled request in " + u2[0] + " gave " + (g2.threw ? "exception " + g2.exc : dshow(g2.data)) + " | " + A.describe() + " pos=" + dshow(p) + " ext=" + dshow(e) + " pos'=" + dshow(p2) + " ext'=" + dshow(e2); });
                // and both equal the brute-force box of the unscaled request
                Box want = tag_box(A, p, e, has_ext, std::vector<double>(R, 1.0), m, 0); std::string dd = compare_box(A, want, g1);
                c.check(dd.empty(), std::string("C18/retrieval/tag-box/") + rm_name(m), [&] { return dd + " | " + A.describe() + " pos=" + dshow(p) + " ext=" + dshow(e); });
                // slices: start/end
                std::vector<double> s1(R), en1(R), s2(R), en2(R); bool ok = true; for (size_t d = 0; d < R; d++) { s1[d] = p[d]; en1[d] = p[d] + e[d]; double fct = util::getSIScaling(u2[d], u1[d]); s2[d] = s1[d] / fct; en2[d] = en1[d] / fct; ok = ok && s2[d] * fct == s1[d] && en2[d] * fct == en1[d]; }
                if (ok) {
                    c.op(std::string("dataSlice metamorphic ") + rm_name(m));
                    Got h1 = retrieve([&] { return util::dataSlice(A.da, s1, en1, u1, m); }), h2 = retrieve([&] { return util::dataSlice(A.da, s2, en2, u2, m); });
                    c.check(h1.threw == h2.threw && h1.data == h2.data, std::string("C18/retrieval/slice/") + rm_name(m), [&] { return "slice in " + u1[0] + " gave " + (h1.threw ? "exception" : dshow(h1.data)) + ", rescaled gave " + (h2.threw ? "exception" : dshow(h2.data)) + " | " + A.describe() + " start=" + dshow(s1) + " end=" + dshow(en1) + " start'=" + dshow(s2) + " end'=" + dshow(en2); });
                }
            }
            // fewer position entries than dimensions, but a unit for every dimension: the surplus unit has nothing to scale,
            // the unspecified dimension is taken as the library takes it - identically for the request in axis units and the rescaled one
            if (R == 2) {
                Tag t3 = b.createTag("t" + str(ai) + "_" + str(ti) + "c", "t", std::vector<double>{p[0]}), t4 = b.createTag("t" + str(ai) + "_" + str(ti) + "d", "t", std::vector<double>{p2[0]});
                if (has_ext) { t3.extent(std::vector<double>{e[0]}); t4.extent(std::vector<double>{e2[0]}); }
                t3.units(r.chance(0.5) ? u1 : std::vector<std::string>{u1[0]}); t4.units(u2); t3.addReference(A.da); t4.addReference(A.da);
                for (RangeMatch m : {RangeMatch::Inclusive, RangeMatch::Exclusive}) {
                    c.op(std::string("taggedData metamorphic fewer-positions ") + rm_name(m));
                    Got g1 = retrieve([&] { return util::taggedData(t3, A.da, m); }), g2 = retrieve([&] { return util::taggedData(t4, A.da, m); });
                    c.check(g1.threw == g2.threw && g1.data == g2.data && g1.count == g2.count, std::string("C18/retrieval/tag-fewer-positions/") + rm_name(m), [&] { return "1 position on 2-d data: units [" + u1[0] + "] gave " + (g1.threw ? "exception " + g1.exc : dshow(g1.data)) + ", rescaled request with units [" + u2[0] + "," + u2[1] + "] gave " + (g2.threw ? "exception " + g2.exc : dshow(g2.data)) + " | " + A.describe() + " pos=" + dstr(p[0]) + " ext=" + dstr(e[0]) + " pos'=" + dstr(p2[0]); });
                }
            }
            // multi-tag with the same two rows
            {
                DataArray pa = b.createDataArray("mp" + str(ai) + "_" + str(ti), "t", DataType::Double, R == 1 ? NDSize{2} : NDSize{2, (ndsize_t)R});
                std::vector<double> rows; for (int k = 0; k < 2; k++) for (size_t d = 0; d < R; d++) rows.push_back(p[d]); pa.setData(DataType::Double, rows.data(), pa.dataExtent(), NDSize(pa.dataExtent().size(), 0));
                DataArray pb = b.createDataArray("mq" + str(ai) + "_" + str(ti), "t", DataType::Double, pa.dataExtent()); rows.clear(); for (int k = 0; k < 2; k++) for (size_t d = 0; d < R; d++) rows.push_back(p2[d]); pb.setData(DataType::Double, rows.data(), pb.dataExtent(), NDSize(pb.dataExtent().size(), 0));
                MultiTag m1 = b.createMultiTag("m" + str(ai) + "_" + str(ti) + "a", "t", pa), m2 = b.createMultiTag("m" + str(ai) + "_" + str(ti) + "b", "t", pb);
                if (has_ext) { DataArray ea = b.createDataArray("me" + str(ai) + "_" + str(ti), "t", DataType::Double, pa.dataExtent()), eb = b.createDataArray("mf" + str(ai) + "_" + str(ti), "t", DataType::Double, pa.dataExtent());
                    rows.clear(); for (int k = 0; k < 2; k++) for (size_t d = 0; d < R; d++) rows.push_back(e[d]); ea.setData(DataType::Double, rows.data(), ea.dataExtent(), NDSize(ea.dataExtent().size(), 0));
                    rows.clear(); for (int k = 0; k < 2; k++) for (size_t d = 0; d < R; d++) rows.push_back(e2[d]); eb.setData(DataType::Double, rows.data(), eb.dataExtent(), NDSize(eb.dataExtent().size(), 0)); m1.extents(ea); m2.extents(eb); }
                m1.units(u1); m2.units(u2); m1.addReference(A.da); m2.addReference(A.da);
                RangeMatch m = r.chance(0.5) ? RangeMatch::Inclusive : RangeMatch::Exclusive;
                c.op(std::string("multitag-taggedData metamorphic ") + rm_name(m));
                Got g1 = retrieve([&] { return util::taggedData(m1, 1, A.da, m); }), g2 = retrieve([&] { return util::taggedData(m2, 1, A.da, m); });
                c.check(g1.threw == g2.threw && g1.data == g2.data, std::string("C18/retrieval/multitag/") + rm_name(m), [&] { return "multi-tag in " + u1[0] + " gave " + (g1.threw ? "exception " + g1.exc : dshow(g1.data)) + ", rescaled in " + u2[0] + " gave " + (g2.threw ? "exception " + g2.exc : dshow(g2.data)) + " | " + A.describe() + " pos=" + dshow(p) + " ext=" + dshow(e); });
            }
            c.count("metamorphic_pairs");
        }
    }
    f.close();
}

long NG(const std::string &tier) { return (long)BASES.size(); }
void run_case(Ctx &c) {
    long ng = NG(c.tier);
    if ((long)c.index < ng) grammar_case(c, (size_t)c.index, !c.quick() || BASES[(size_t)c.index].size() > 1);
    else meta_case(c);
    c.nontrivial = c.checks > 20;
}
long ncases(const std::string &tier) { return NG(tier) + (tier == "quick" ? 40 : 1200); }
std::vector<std::string> witnesses() { return {"d10-multi-letter-power", "d25-slice-width-epsilon", "d33-surplus-tag-unit"}; }
void run_witness(Ctx &c, const std::string &name) {
    if (name == "d10-multi-letter-power") {
        for (const char *base : {"Sv", "Wb", "mol"}) for (int pw : {2, -1}) {
            std::string ua = mk("m", base, pw), ub = mk("", base, pw); c.op("getSIScaling multi-letter power | " + ua + "->" + ub);
            double got = 0; try { got = util::getSIScaling(ua, ub); c.check(rel_close(got, std::pow(10.0, -3 * pw)), "C18/factor/value/power", ua + "->" + ub + " = " + dstr(got)); }
            catch (std::exception &e) { c.check(false, "C18/factor/exception/multi-letter/power", ua + " -> " + ub + " threw " + e.what()); }
        }
    }
    else if (name == "d25-slice-width-epsilon") {
        // the slice [0.625, 0.75) mT contains no sample of the axis 0, 0.25, 0.5, 0.75 mT: an error. The same slice in TT must not return data either.
        File f = File::open(c.path("w.nix"), FileMode::Overwrite); Block b = f.createBlock("b", "t"); DataArray a = b.createDataArray("a", "t", DataType::Double, NDSize{4}); std::vector<double> d{0, 1, 2, 3}; a.setData(d); a.appendSampledDimension(0.25, "", "mT");
        double fct = util::getSIScaling("TT", "mT");
        c.op("dataSlice metamorphic Exclusive");
        Got h1 = retrieve([&] { return util::dataSlice(a, {0.625}, {0.75}, {"mT"}, RangeMatch::Exclusive); }), h2 = retrieve([&] { return util::dataSlice(a, {0.625 / fct}, {0.75 / fct}, {"TT"}, RangeMatch::Exclusive); });
        c.check(h1.threw == h2.threw && h1.data == h2.data, "C18/retrieval/slice/Exclusive", std::string("slice in mT ") + (h1.threw ? "raised" : "gave " + dshow(h1.data)) + ", the same slice in TT " + (h2.threw ? "raised" : "gave " + dshow(h2.data)));
        f.close();
    }
    else if (name == "d33-surplus-tag-unit") {
        // 10 x 8 array, axes in s and V; one position entry. Units {ms} and units {ms, mV} are the same request: the second unit has nothing to scale
        File f = File::open(c.path("w.nix"), FileMode::Overwrite); Block b = f.createBlock("b", "t"); DataArray a = b.createDataArray("a", "t", DataType::Double, NDSize{10, 8});
        std::vector<double> lin(80); for (int i = 0; i < 80; i++) lin[(size_t)i] = i; a.setData(DataType::Double, lin.data(), NDSize{10, 8}, NDSize{0, 0});
        a.appendSampledDimension(1.0).unit("s"); a.appendSampledDimension(1.0).unit("V");
        Tag t1 = b.createTag("t1", "t", {2000.0}), t2 = b.createTag("t2", "t", {2000.0}); t1.extent({3000.0}); t2.extent({3000.0}); t1.units({"ms"}); t2.units({"ms", "mV"}); t1.addReference(a); t2.addReference(a);
        for (RangeMatch m : {RangeMatch::Inclusive, RangeMatch::Exclusive}) {
            c.op(std::string("taggedData metamorphic fewer-positions ") + rm_name(m));
            Got g1 = retrieve([&] { return util::taggedData(t1, a, m); }), g2 = retrieve([&] { return util::taggedData(t2, a, m); });
            c.check(g1.threw == g2.threw && g1.data == g2.data && g1.count == g2.count, std::string("C18/retrieval/tag-fewer-positions/") + rm_name(m), std::string("units {ms} ") + (g1.threw ? "raised " + g1.exc : "gave " + str(g1.data.size()) + " elements") + ", units {ms,mV} " + (g2.threw ? "raised " + g2.exc : "gave " + str(g2.data.size()) + " elements"));
        }
        f.close();
    }
    c.nontrivial = true;
}
Reg reg({"C18", ncases, run_case, witnesses, run_witness, 300});
}  // namespace
