// C06 - MultiTag retrieval returns exactly region i for position index i.
#include "core/core.hpp"
#include "core/retrieval.hpp"
using namespace vm;
using namespace nix;

namespace {

struct MSpec { long N = 0, k = 0; std::vector<std::vector<double>> pos, ext; bool has_ext = false; std::vector<std::string> units; std::vector<double> factor; std::string cls; };

std::string row_show(const MSpec &s, long i) {
    std::string r = "row" + str(i) + " pos=" + dshow(s.pos[(size_t)i]) + " ext=" + (s.has_ext ? dshow(s.ext[(size_t)i]) : std::string("none"));
    if (!s.units.empty()) { r += " units=["; for (auto &u : s.units) r += u + ","; r += "]"; }
    return r;
}

MSpec gen_mtag(Ctx &c, const RArray &A, bool use_units) {
    Rng &r = c.rng; MSpec s; size_t R = A.rank();
    s.N = 1 + (long)r.u(c.quick() ? 8 : 32);
    s.k = (long)R; if (R > 1) { int w = (int)r.weighted({6, 2, 1}); if (w == 1) s.k = 1 + (long)r.u(R - 1); else if (w == 2) s.k = (long)R + 1; }
    s.has_ext = r.chance(0.65);
    s.cls = s.k < (long)R ? "fewer" : (s.k > (long)R ? "more" : "full");
    // units are per dimension for the whole tag
    for (long d = 0; d < s.k; d++) {
        double f = 1.0; std::string u = "none";
        if (use_units && d < (long)R && !A.ax[(size_t)d].unit.empty()) { static const char *pre[] = {"", "m", "k", "u"}; const std::string &au = A.ax[(size_t)d].unit; u = std::string(r.pick(pre)) + au.substr(au.size() - 1); f = util::getSIScaling(u, au); }
        s.units.push_back(u); s.factor.push_back(f);
    }
    if (!use_units) s.units.clear();
    for (long i = 0; i < s.N; i++) {
        std::vector<double> p, e;
        for (long d = 0; d < s.k; d++) {
            if (d >= (long)R) { p.push_back((double)r.range(0, 3)); e.push_back((double)r.range(0, 2)); continue; }
            const Axis &ax = A.ax[(size_t)d]; long n = A.shape[(size_t)d]; std::string c1, c2;
            long a = r.chance(0.1) ? (r.chance(0.5) ? -1 : n + (long)r.u(2)) : (long)r.u(n);
            long b = a + (long)r.u(std::max(1L, n - a + (r.chance(0.1) ? 2 : 0)));
            double pp = gen_position(ax, n, a, r, c1) / s.factor[(size_t)d], qq = gen_position(ax, n, b, r, c2) / s.factor[(size_t)d];
            int ek = (int)r.weighted({8, 2, 1});
            p.push_back(pp); e.push_back(ek == 0 ? qq - pp : (ek == 1 ? 0.0 : -(std::fabs(qq - pp) + 0.5)));
        }
        s.pos.push_back(p); s.ext.push_back(e);
    }
    return s;
}

Box row_box(const RArray &A, const MSpec &s, long i, RangeMatch m, int d6) {
    return tag_box(A, s.pos[(size_t)i], s.has_ext ? s.ext[(size_t)i] : std::vector<double>(), s.has_ext, s.factor, m, d6);
}

void judge_row(Ctx &c, const RArray &A, const MSpec &s, long i, RangeMatch m, const Got &g, const std::string &entry) {
    size_t R = A.rank(); std::string mode = rm_name(m);
    Box want = row_box(A, s, i, m, 0); std::string d = compare_box(A, want, g);
    auto detail = [&] { return d + " | " + A.describe() + row_show(s, i) + " mode=" + mode + " N=" + str(s.N); };
    if (s.k > (long)R) { if (g.threw) { c.count("unjudged:more-entries-exception"); return; } c.check(d.empty(), "C06/box/more-entries/" + mode + "/" + entry, detail); return; }
    if (s.k < (long)R) {
        if (d.empty()) { c.check(true, "", ""); return; }
        bool explained = compare_box(A, row_box(A, s, i, m, 2), g).empty();
        c.check(false, explained ? "C06/box/unspecified-dims/d6-padding" : "C06/box/unspecified-dims/other/" + mode + "/" + entry, detail);
        return;
    }
    c.check(d.empty(), "C06/box/" + std::string(want.oob ? "expect-oob" : "expect-data") + "/" + mode + (s.has_ext ? "" : "/positions-only"), [&] { return detail() + " entry=" + entry; });
}

DataArray store(Block &b, const std::string &name, const std::vector<std::vector<double>> &rows, long N, long k, bool oned) {
    std::vector<double> flat; for (auto &r : rows) for (double x : r) flat.push_back(x);
    NDSize shape = oned ? NDSize{(ndsize_t)N} : NDSize{(ndsize_t)N, (ndsize_t)k};
    DataArray a = b.createDataArray(name, "t", DataType::Double, shape);
    a.setData(DataType::Double, flat.data(), shape, NDSize(shape.size(), 0));
    return a;
}

void run_case(Ctx &c) {
    Rng &r = c.rng;
    File f = File::open(c.path("c06.nix"), FileMode::Overwrite);
    Block b = f.createBlock("b", "t");
    int ntags = c.quick() ? 4 : 6;
    for (int ti = 0; ti < ntags; ti++) {
        size_t R = 1 + r.weighted({4, 4, 3}); bool use_units = r.chance(0.3);
        RArrayOpts o; o.units = use_units; o.max_extent = R == 3 ? 6 : 9;
        c.op("make-array rank" + str(R));
        RArray A = make_rarray(c, b, "a" + str(ti), R, o);
        MSpec s = gen_mtag(c, A, use_units);
        bool oned = R == 1;     // 1-D positions tag 1-D data; N x k positions tag k-dimensional data
        if (oned) s.k = 1;
        c.fp("R" + str(R) + s.cls + (s.has_ext ? "e" : "p") + (use_units ? "u" : "")); for (auto &ax : A.ax) c.fp(ax.kname());
        c.op("createMultiTag " + s.cls + (s.has_ext ? " extents" : " positions-only") + " | N=" + str(s.N) + " k=" + str(s.k));
        DataArray pa = store(b, "pos" + str(ti), s.pos, s.N, s.k, oned);
        MultiTag mt = b.createMultiTag("mt" + str(ti), "t", pa);
        if (s.has_ext) { DataArray ea = store(b, "ext" + str(ti), s.ext, s.N, s.k, oned); mt.extents(ea); }
        if (!s.units.empty()) mt.units(s.units);
        mt.addReference(A.da);
        c.count("multitags"); c.count("positions", s.N); c.count("entries:" + s.cls);
        // ---- every index, both modes, several entry points
        for (RangeMatch m : {RangeMatch::Inclusive, RangeMatch::Exclusive}) {
            std::vector<Got> singles;
            for (long i = 0; i < s.N; i++) {
                c.op(std::string("taggedData ") + rm_name(m) + " " + s.cls + (s.has_ext ? "" : " positions-only"));
                Got g = retrieve([&] { return util::taggedData(mt, (ndsize_t)i, A.da, m); });
                judge_row(c, A, s, i, m, g, "single"); singles.push_back(g);
                if (r.chance(0.2)) { c.op(std::string("taggedData-refindex ") + rm_name(m)); judge_row(c, A, s, i, m, retrieve([&] { return util::taggedData(mt, (ndsize_t)i, (ndsize_t)0, m); }), "single-refindex"); }
                if (r.chance(0.1)) { c.op(std::string("retrieveData ") + rm_name(m)); judge_row(c, A, s, i, m, retrieve([&] { return util::retrieveData(mt, (ndsize_t)i, A.da, m); }), "retrieveData"); }
            }
            // index beyond the number of positions
            for (long i : {s.N, s.N + 1 + (long)r.u(5)}) {
                c.op(std::string("taggedData-index-beyond ") + rm_name(m));
                Got g = retrieve([&] { return util::taggedData(mt, (ndsize_t)i, A.da, m); });
                c.check(g.threw, std::string("C06/index-beyond/") + rm_name(m), [&] { return "index " + str(i) + " of " + str(s.N) + " positions returned data " + dshow(g.data); });
            }
            // list retrieval == list of single retrievals (random list incl. repeats, unsorted; and the empty list = all)
            for (int rep = 0; rep < 2; rep++) {
                std::vector<ndsize_t> idx; if (rep == 0) { long L = 1 + (long)r.u(5); for (long j = 0; j < L; j++) idx.push_back((ndsize_t)r.u(s.N)); }
                std::vector<ndsize_t> asked = idx; if (asked.empty()) for (long j = 0; j < s.N; j++) asked.push_back((ndsize_t)j);
                c.op(std::string("taggedData-list ") + rm_name(m) + (rep ? " empty-list" : " random-list"));
                bool threw = false; std::vector<Got> got; std::string exc;
                try { std::vector<ndsize_t> arg = idx; std::vector<DataView> vs = util::taggedData(mt, arg, A.da, m); for (auto &v : vs) got.push_back(retrieve([&] { return v; })); }
                catch (std::exception &e) { threw = true; exc = e.what(); }
                bool any_single_threw = false; for (ndsize_t j : asked) any_single_threw = any_single_threw || singles[(size_t)j].threw;
                if (any_single_threw) c.check(threw, std::string("C06/list/expect-throw/") + rm_name(m), [&] { return "a single retrieval of the list throws but the list retrieval returned " + str(got.size()) + " views | " + A.describe(); });
                else {
                    bool same = !threw && got.size() == asked.size(); for (size_t j = 0; same && j < asked.size(); j++) same = got[j].data == singles[(size_t)asked[j]].data && got[j].count == singles[(size_t)asked[j]].count;
                    c.check(same, std::string("C06/list/equals-singles/") + rm_name(m) + (rep ? "/empty-list" : ""), [&] { return std::string("list retrieval differs from the single retrievals") + (threw ? " (threw: " + exc + ")" : "") + " | " + A.describe() + " N=" + str(s.N); });
                }
            }
        }
        // ---- default-mode member call (Exclusive)
        { long i = (long)r.u(s.N); c.op("MultiTag::taggedData-default " + s.cls + (s.has_ext ? "" : " positions-only")); judge_row(c, A, s, i, RangeMatch::Exclusive, retrieve([&] { return mt.taggedData((size_t)i, (size_t)0); }), "member-default"); }
        // ---- features
        if (r.chance(0.7)) {
            LinkType lt = r.pick(std::vector<LinkType>{LinkType::Tagged, LinkType::Tagged, LinkType::Untagged, LinkType::Indexed, LinkType::Indexed});
            RArrayOpts fo; fo.max_extent = R == 3 ? 6 : 9;
            // tagged features: mostly an array with the same descriptors as the reference (so that region ends fall on its samples too)
            RArray FA = (lt == LinkType::Tagged && r.chance(0.7)) ? make_rarray_like(c, b, "feat" + str(ti), A) : make_rarray(c, b, "feat" + str(ti), R, fo);
            if (lt == LinkType::Indexed && r.chance(0.7)) {   // give the feature array N slices along the first dimension
                FA.shape[0] = s.N + (long)r.u(2); FA.da.dataExtent(to_nd(FA.shape)); long n = ArrayModel::nelms(FA.shape); std::vector<double> lin((size_t)n); for (long j = 0; j < n; j++) lin[(size_t)j] = (double)j;
                FA.da.setData(DataType::Double, lin.data(), to_nd(FA.shape), NDSize(R, 0));
            }
            c.op("createFeature " + link_type_to_string(lt));
            Feature ft = mt.createFeature(FA.da, lt);
            for (RangeMatch m : {RangeMatch::Inclusive, RangeMatch::Exclusive})
            for (long i = 0; i < s.N + 1; i++) {
                c.op(std::string("featureData ") + link_type_to_string(lt) + " " + rm_name(m));
                Got g = retrieve([&] { return r.chance(0.5) ? util::featureData(mt, (ndsize_t)i, (ndsize_t)0, m) : util::featureData(mt, (ndsize_t)i, ft, m); });
                if (i >= s.N) { c.check(g.threw, "C06/feature/index-beyond/" + link_type_to_string(lt), [&] { return "feature data for index " + str(i) + " of " + str(s.N) + " positions returned " + dshow(g.data); }); continue; }
                if (lt == LinkType::Indexed) {
                    Box want; if (i >= FA.shape[0]) { want.oob = true; want.why = "slice beyond feature data"; } else { want.lo.assign(R, 0); want.hi = FA.shape; for (auto &h : want.hi) h -= 1; want.lo[0] = want.hi[0] = i; }
                    std::string d = compare_box(FA, want, g); c.check(d.empty(), "C06/feature/indexed", [&] { return d + " | index " + str(i) + " feature " + FA.describe(); });
                } else if (lt == LinkType::Untagged) {
                    Box want; want.lo.assign(R, 0); want.hi = FA.shape; for (auto &h : want.hi) h -= 1;
                    std::string d = compare_box(FA, want, g); c.check(d.empty(), "C06/feature/untagged-whole", [&] { return d + " | " + FA.describe(); });
                } else if (s.k == (long)R) {
                    // the tag's units are scaled to the feature array's own dimension units
                    MSpec sf = s; bool scalable = true;
                    for (size_t d = 0; d < R && !s.units.empty(); d++) { const std::string &fu = FA.ax[d].unit; sf.factor[d] = 1.0; if (s.units[d] == "none" || (fu.empty() && FA.ax[d].kind >= Axis::Set)) continue; if (fu.empty() || !util::isScalable(s.units[d], fu)) { scalable = false; break; } sf.factor[d] = util::getSIScaling(s.units[d], fu); }
                    if (!scalable) { c.count("unjudged:feature-units-not-scalable"); continue; }
                    Box want = row_box(FA, sf, i, m, 0); std::string d = compare_box(FA, want, g);
                    c.check(d.empty(), std::string("C06/feature/tagged/") + rm_name(m), [&] { return d + " | feature " + FA.describe() + row_show(s, i); });
                }
            }
        }
    }
    c.nontrivial = c.checks > 20;
    f.close();
}

long ncases(const std::string &tier) { return tier == "quick" ? 120 : 3000; }
std::vector<std::string> witnesses() { return {"d5-positions-only-exclusive", "d6-unspecified-dims"}; }
void run_witness(Ctx &c, const std::string &name) {
    File f = File::open(c.path("w.nix"), FileMode::Overwrite); Block b = f.createBlock("b", "t");
    if (name == "d5-positions-only-exclusive") {
        // the tutorial's spike-time example: positions only, default (Exclusive) mode, interval-1 axis
        RArray A; A.shape = {10}; A.da = b.createDataArray("a", "t", DataType::Double, NDSize{10}); std::vector<double> lin(10); for (int i = 0; i < 10; i++) lin[i] = i; A.da.setData(lin);
        Axis ax; ax.kind = Axis::Sampled; ax.dt = 1.0; ax.off = 0.0; A.da.appendSampledDimension(1.0); A.ax = {ax};
        MSpec s; s.N = 3; s.k = 1; s.pos = {{2.0}, {5.0}, {7.5}}; s.ext = {{0}, {0}, {0}}; s.has_ext = false; s.factor = {1.0}; s.cls = "full";
        DataArray pa = store(b, "pos", s.pos, 3, 1, true); MultiTag mt = b.createMultiTag("mt", "t", pa); mt.addReference(A.da);
        for (long i = 0; i < 3; i++) { c.op("taggedData Exclusive full positions-only"); judge_row(c, A, s, i, RangeMatch::Exclusive, retrieve([&] { return mt.taggedData((size_t)i, (size_t)0); }), "member-default"); }
        // a non-empty but invalid range (negative extent) must raise, not return element 0
        MSpec s2 = s; s2.has_ext = true; s2.ext = {{-1.0}, {1.0}, {1.0}}; DataArray ea = store(b, "ext", s2.ext, 3, 1, true); mt.extents(ea);
        c.op("taggedData Inclusive full negative-extent"); judge_row(c, A, s2, 0, RangeMatch::Inclusive, retrieve([&] { return util::taggedData(mt, 0, A.da, RangeMatch::Inclusive); }), "single");
    } else if (name == "d6-unspecified-dims") {
        RArray A; A.shape = {4, 5}; A.da = b.createDataArray("a", "t", DataType::Double, NDSize{4, 5});
        std::vector<double> lin(20); for (int i = 0; i < 20; i++) lin[i] = i; A.da.setData(DataType::Double, lin.data(), NDSize{4, 5}, NDSize{0, 0});
        Axis a0; a0.kind = Axis::Sampled; a0.dt = 1.0; a0.off = 0.0; Axis a1 = a0; a1.off = 1.0;
        A.da.appendSampledDimension(1.0); A.da.appendSampledDimension(1.0, "", "", 1.0); A.ax = {a0, a1};
        MSpec s; s.N = 2; s.k = 1; s.pos = {{1.0}, {2.0}}; s.ext = {{2.0}, {1.0}}; s.has_ext = true; s.factor = {1.0}; s.cls = "fewer";
        DataArray pa = store(b, "pos", s.pos, 2, 1, false), ea = store(b, "ext", s.ext, 2, 1, false);
        MultiTag mt = b.createMultiTag("mt", "t", pa); mt.extents(ea); mt.addReference(A.da);
        for (RangeMatch m : {RangeMatch::Inclusive, RangeMatch::Exclusive}) { c.op(std::string("taggedData ") + rm_name(m) + " fewer"); judge_row(c, A, s, 0, m, retrieve([&] { return util::taggedData(mt, 0, A.da, m); }), "single"); }
    }
    c.nontrivial = true; f.close();
}
Reg reg({"C06", ncases, run_case, witnesses, run_witness, 120});
}  // namespace
