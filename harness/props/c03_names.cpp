// C03 - names are unique per parent; name / id / index lookups, has-queries, counts and order agree.
#include "core/core.hpp"
#include "core/graph.hpp"
#include <nix/verif_hooks.hpp>
#include <algorithm>
using namespace vm;
using namespace nix;

namespace {
typedef std::pair<std::string, std::string> NI;   // (name, id)

struct Cont {
    std::string key;          // e.g. "block[B0].dataArrays"
    std::string kind;         // e.g. "block.dataArrays"
    bool named = true;        // children have names that must be unique here (false: features)
    bool by_name = true;      // lookups accept names (false: id only)
    bool membership = false;  // children are links to entities owned elsewhere
    std::function<ndsize_t()> count;
    std::function<NI(ndsize_t)> at;                       // by index
    std::function<bool(const std::string &, NI &)> get;   // by name or id; false = none
    std::function<bool(const std::string &)> has;         // by name or id
    std::function<bool(ndsize_t)> has_handle;             // has(handle of child i)
    std::function<std::vector<NI>()> list;                // vector getter
    std::function<std::string(const std::string &)> create;   // returns id; may throw
    std::function<bool(const NI &, int)> remove;          // how: 0 name, 1 id, 2 handle
    std::function<void(const std::vector<std::string> &)> set_all;   // membership containers: replace all members (names of owner entities, in this order)
    std::function<bool(const NI &)> has_foreign, remove_foreign;     // has / delete through the handle of a NAMESAKE child of the sibling container
};

template <typename E> NI ni(const E &e) { return NI(e.name(), e.id()); }
template <typename E> bool opt_ni(const E &e, NI &out) { if (!e) return false; out = ni(e); return true; }

struct World {
    Ctx &c; Rng &r; File f; std::string path;
    std::vector<Cont> conts; std::map<std::string, std::vector<NI>> shadow; std::map<std::string, std::vector<std::string>> graveyard, dead_names;
    long serial = 0; std::vector<std::string> focus;
    Group gC; Tag tC; MultiTag mC; DataArray aC;   // the handles returned by the create calls (first session only): members are ADDED through them, everything is READ through looked-up handles
    explicit World(Ctx &cx) : c(cx), r(cx.rng) {}
    // HDF5 path of the container behind a tracked key (skeleton names are fixed), "" if not mapped
    static std::string h5path(const std::string &key) {
        static const std::map<std::string, std::string> m = {{"file.blocks", "/data"}, {"file.sections", "/metadata"}, {"section[S0].sections", "/metadata/S0/sections"}, {"block[B0].dataArrays", "/data/B0/data_arrays"}, {"block[B0].tags", "/data/B0/tags"},
            {"block[B0].multiTags", "/data/B0/multi_tags"}, {"block[B0].sources", "/data/B0/sources"}, {"block[B0].groups", "/data/B0/groups"}, {"block[B0].dataFrames", "/data/B0/data_frames"}, {"source[src0].sources", "/data/B0/sources/src0/sources"}};
        auto it = m.find(key); return it == m.end() ? std::string() : it->second;
    }
    // a name that puts the child's HDF5 path right on or next to a power-of-two length (fixed-size path buffers fail exactly there)
    std::string boundary_name(const std::string &container_path) {
        static const long targets[] = {63, 64, 65, 127, 128, 129, 255, 256, 257}; long t = r.pick(targets), len = t - (long)container_path.size() - 1; std::string n = "b" + str(serial++) + "_";
        if (len < (long)n.size()) return fresh_name(); return n + std::string((size_t)(len - (long)n.size()), 'p');
    }
    std::string fresh_name() { for (;;) { std::string n = gen_name(r, serial++, 45); if (n == ".") continue; return n; } }

    // (re)bind the skeleton and the container adaptors to the open file
    void bind() {
        conts.clear();
        File F = f;
        { Cont k; k.key = "file.blocks"; k.kind = "file.blocks";
          k.count = [F] { return F.blockCount(); }; k.at = [F](ndsize_t i) { return ni(F.getBlock(i)); };
          k.get = [F](const std::string &q, NI &o) { return opt_ni(F.getBlock(q), o); }; k.has = [F](const std::string &q) { return F.hasBlock(q); };
          k.has_handle = [F](ndsize_t i) { return F.hasBlock(F.getBlock(i)); }; k.list = [F] { std::vector<NI> v; for (auto &e : F.blocks()) v.push_back(ni(e)); return v; };
          k.create = [F](const std::string &n) mutable { return F.createBlock(n, "t").id(); };
          k.remove = [F](const NI &x, int how) mutable { return how == 0 ? F.deleteBlock(x.first) : how == 1 ? F.deleteBlock(x.second) : F.deleteBlock(F.getBlock(x.second)); }; conts.push_back(k); }
        { Cont k; k.key = "file.sections"; k.kind = "file.sections";
          k.count = [F] { return F.sectionCount(); }; k.at = [F](ndsize_t i) { return ni(F.getSection(i)); };
          k.get = [F](const std::string &q, NI &o) { return opt_ni(F.getSection(q), o); }; k.has = [F](const std::string &q) { return F.hasSection(q); };
          k.has_handle = [F](ndsize_t i) { return F.hasSection(F.getSection(i)); }; k.list = [F] { std::vector<NI> v; for (auto &e : F.sections()) v.push_back(ni(e)); return v; };
          k.create = [F](const std::string &n) mutable { return F.createSection(n, "t").id(); };
          k.remove = [F](const NI &x, int how) mutable { return how == 0 ? F.deleteSection(x.first) : how == 1 ? F.deleteSection(x.second) : F.deleteSection(F.getSection(x.second)); }; conts.push_back(k); }
        for (const char *sn : {"S0", "S0/c"}) {
            Section S = std::string(sn) == "S0" ? f.getSection("S0") : f.getSection("S0").getSection("c");
            { Cont k; k.key = std::string("section[") + sn + "].sections"; k.kind = "section.sections";
              k.count = [S] { return S.sectionCount(); }; k.at = [S](ndsize_t i) { return ni(S.getSection(i)); };
              k.get = [S](const std::string &q, NI &o) { return opt_ni(S.getSection(q), o); }; k.has = [S](const std::string &q) { return S.hasSection(q); };
              k.has_handle = [S](ndsize_t i) { return S.hasSection(S.getSection(i)); }; k.list = [S] { std::vector<NI> v; for (auto &e : S.sections()) v.push_back(ni(e)); return v; };
              k.create = [S](const std::string &n) mutable { return S.createSection(n, "t").id(); };
              k.remove = [S](const NI &x, int how) mutable { return how == 0 ? S.deleteSection(x.first) : how == 1 ? S.deleteSection(x.second) : S.deleteSection(S.getSection(x.second)); };
              { Section O = std::string(sn) == "S0" ? f.getSection("S0").getSection("c") : f.getSection("S0"); k.has_foreign = [S, O](const NI &x) { return S.hasSection(O.getSection(x.second)); }; k.remove_foreign = [S, O](const NI &x) mutable { return S.deleteSection(O.getSection(x.second)); }; }
              conts.push_back(k); }
            { Cont k; k.key = std::string("section[") + sn + "].properties"; k.kind = "section.properties";
              k.count = [S] { return S.propertyCount(); }; k.at = [S](ndsize_t i) { return ni(S.getProperty(i)); };
              k.get = [S](const std::string &q, NI &o) { return opt_ni(S.getProperty(q), o); }; k.has = [S](const std::string &q) { return S.hasProperty(q); };
              k.has_handle = [S](ndsize_t i) { return S.hasProperty(S.getProperty(i)); }; k.list = [S] { std::vector<NI> v; for (auto &e : S.properties()) v.push_back(ni(e)); return v; };
              k.create = [S](const std::string &n) mutable { return S.createProperty(n, Variant(1.5)).id(); };
              k.remove = [S](const NI &x, int how) mutable { return how == 0 ? S.deleteProperty(x.first) : how == 1 ? S.deleteProperty(x.second) : S.deleteProperty(S.getProperty(x.second)); }; conts.push_back(k); }
        }
        Block B = f.getBlock("B0");
#define TRUE_CONT(KEY, CNT, GET, HAS, LIST, CREATE, DEL, TYPE) { Cont k; k.key = "block[B0]." KEY; k.kind = "block." KEY; \
          k.count = [B] { return B.CNT(); }; k.at = [B](ndsize_t i) { return ni(B.GET(i)); }; \
          k.get = [B](const std::string &q, NI &o) { return opt_ni(B.GET(q), o); }; k.has = [B](const std::string &q) { return B.HAS(q); }; \
          k.has_handle = [B](ndsize_t i) { return B.HAS(B.GET(i)); }; k.list = [B] { std::vector<NI> v; for (auto &e : B.LIST()) v.push_back(ni(e)); return v; }; \
          k.create = [B](const std::string &n) mutable { CREATE; }; \
          k.remove = [B](const NI &x, int how) mutable { return how == 0 ? B.DEL(x.first) : how == 1 ? B.DEL(x.second) : B.DEL(B.GET(x.second)); }; conts.push_back(k); }
        TRUE_CONT("dataArrays", dataArrayCount, getDataArray, hasDataArray, dataArrays, return B.createDataArray(n, "t", DataType::Double, NDSize{2}).id(), deleteDataArray, DataArray)
        TRUE_CONT("dataFrames", dataFrameCount, getDataFrame, hasDataFrame, dataFrames, return B.createDataFrame(n, "t", {{"c", "", DataType::Int32}}).id(), deleteDataFrame, DataFrame)
        TRUE_CONT("tags", tagCount, getTag, hasTag, tags, return B.createTag(n, "t", {1.0}).id(), deleteTag, Tag)
        TRUE_CONT("multiTags", multiTagCount, getMultiTag, hasMultiTag, multiTags, return B.createMultiTag(n, "t", B.getDataArray("pos")).id(), deleteMultiTag, MultiTag)
        TRUE_CONT("groups", groupCount, getGroup, hasGroup, groups, return B.createGroup(n, "t").id(), deleteGroup, Group)
        TRUE_CONT("sources", sourceCount, getSource, hasSource, sources, return B.createSource(n, "t").id(), deleteSource, Source)
#undef TRUE_CONT
        for (const char *sn : {"src0", "src0/c"}) {
            Source S = std::string(sn) == "src0" ? B.getSource("src0") : B.getSource("src0").getSource("c");
            Cont k; k.key = std::string("source[") + sn + "].sources"; k.kind = "source.sources";
            k.count = [S] { return S.sourceCount(); }; k.at = [S](ndsize_t i) { return ni(S.getSource(i)); };
            k.get = [S](const std::string &q, NI &o) { return opt_ni(S.getSource(q), o); }; k.has = [S](const std::string &q) { return S.hasSource(q); };
            k.has_handle = [S](ndsize_t i) { return S.hasSource(S.getSource(i)); }; k.list = [S] { std::vector<NI> v; for (auto &e : S.sources()) v.push_back(ni(e)); return v; };
            k.create = [S](const std::string &n) mutable { return S.createSource(n, "t").id(); };
            k.remove = [S](const NI &x, int how) mutable { return how == 0 ? S.deleteSource(x.first) : how == 1 ? S.deleteSource(x.second) : S.deleteSource(S.getSource(x.second)); };
            { Source O = std::string(sn) == "src0" ? B.getSource("src0").getSource("c") : B.getSource("src0"); k.has_foreign = [S, O](const NI &x) { return S.hasSource(O.getSource(x.second)); }; k.remove_foreign = [S, O](const NI &x) mutable { return S.deleteSource(O.getSource(x.second)); }; }
            conts.push_back(k);
        }
        // ---- membership containers: children are arrays / sources of block B0 picked by name (the "create" argument is the name of an existing entity)
        Tag T = B.getTag("T0"); MultiTag M = B.getMultiTag("M0"); Group G = B.getGroup("G0"); DataArray A = B.getDataArray("pos");
        Tag TW = tC ? tC : T; MultiTag MW = mC ? mC : M; Group GW = gC ? gC : G; DataArray AW = aC ? aC : A;   // writers
        { Cont k; k.key = "tag[T0].references"; k.kind = "tag.references"; k.membership = true;
          k.count = [T] { return T.referenceCount(); }; k.at = [T](ndsize_t i) { return ni(T.getReference((size_t)i)); };
          k.get = [T](const std::string &q, NI &o) { return opt_ni(T.getReference(q), o); }; k.has = [T](const std::string &q) { return T.hasReference(q); };
          k.has_handle = [T](ndsize_t i) { return T.hasReference(T.getReference((size_t)i)); }; k.list = [T] { std::vector<NI> v; for (auto &e : T.references()) v.push_back(ni(e)); return v; };
          k.create = [TW, B](const std::string &n) mutable { DataArray a = B.getDataArray(n); if (n.size() % 2) TW.addReference(a); else TW.addReference(a.id()); return a.id(); };
          k.remove = [T, B](const NI &x, int how) mutable { return how == 0 ? T.removeReference(x.first) : how == 1 ? T.removeReference(x.second) : T.removeReference(B.getDataArray(x.second)); }; k.set_all = [T, B](const std::vector<std::string> &n) mutable { std::vector<DataArray> v; for (auto &x : n) v.push_back(B.getDataArray(x)); T.references(v); }; conts.push_back(k); }
        { Cont k; k.key = "multitag[M0].references"; k.kind = "multitag.references"; k.membership = true;
          k.count = [M] { return M.referenceCount(); }; k.at = [M](ndsize_t i) { return ni(M.getReference((size_t)i)); };
          k.get = [M](const std::string &q, NI &o) { return opt_ni(M.getReference(q), o); }; k.has = [M](const std::string &q) { return M.hasReference(q); };
          k.has_handle = [M](ndsize_t i) { return M.hasReference(M.getReference((size_t)i)); }; k.list = [M] { std::vector<NI> v; for (auto &e : M.references()) v.push_back(ni(e)); return v; };
          k.create = [MW, B](const std::string &n) mutable { DataArray a = B.getDataArray(n); MW.addReference(a); return a.id(); };
          k.remove = [M, B](const NI &x, int how) mutable { return how == 0 ? M.removeReference(x.first) : how == 1 ? M.removeReference(x.second) : M.removeReference(B.getDataArray(x.second)); }; k.set_all = [M, B](const std::vector<std::string> &n) mutable { std::vector<DataArray> v; for (auto &x : n) v.push_back(B.getDataArray(x)); M.references(v); }; conts.push_back(k); }
        { Cont k; k.key = "group[G0].dataArrays"; k.kind = "group.dataArrays"; k.membership = true;
          k.count = [G] { return G.dataArrayCount(); }; k.at = [G](ndsize_t i) { return ni(G.getDataArray((size_t)i)); };
          k.get = [G](const std::string &q, NI &o) { return opt_ni(G.getDataArray(q), o); }; k.has = [G](const std::string &q) { return G.hasDataArray(q); };
          k.has_handle = [G](ndsize_t i) { return G.hasDataArray(G.getDataArray((size_t)i)); }; k.list = [G] { std::vector<NI> v; for (auto &e : G.dataArrays()) v.push_back(ni(e)); return v; };
          k.create = [GW, B](const std::string &n) mutable { DataArray a = B.getDataArray(n); if (n.size() % 2) GW.addDataArray(a); else GW.addDataArray(a.id()); return a.id(); };
          k.remove = [G, B](const NI &x, int how) mutable { return how == 0 ? G.removeDataArray(x.first) : how == 1 ? G.removeDataArray(x.second) : G.removeDataArray(B.getDataArray(x.second)); }; k.set_all = [G, B](const std::vector<std::string> &n) mutable { std::vector<DataArray> v; for (auto &x : n) v.push_back(B.getDataArray(x)); G.dataArrays(v); }; conts.push_back(k); }
        { Cont k; k.key = "group[G0].tags"; k.kind = "group.tags"; k.membership = true;
          k.count = [G] { return G.tagCount(); }; k.at = [G](ndsize_t i) { return ni(G.getTag((size_t)i)); };
          k.get = [G](const std::string &q, NI &o) { return opt_ni(G.getTag(q), o); }; k.has = [G](const std::string &q) { return G.hasTag(q); };
          k.has_handle = [G](ndsize_t i) { return G.hasTag(G.getTag((size_t)i)); }; k.list = [G] { std::vector<NI> v; for (auto &e : G.tags()) v.push_back(ni(e)); return v; };
          k.create = [GW, B](const std::string &n) mutable { Tag a = B.getTag(n); GW.addTag(a); return a.id(); };
          k.remove = [G, B](const NI &x, int how) mutable { return how == 0 ? G.removeTag(x.first) : how == 1 ? G.removeTag(x.second) : G.removeTag(B.getTag(x.second)); }; k.set_all = [G, B](const std::vector<std::string> &n) mutable { std::vector<Tag> v; for (auto &x : n) v.push_back(B.getTag(x)); G.tags(v); }; conts.push_back(k); }
        { Cont k; k.key = "group[G0].dataFrames"; k.kind = "group.dataFrames"; k.membership = true;
          k.count = [G] { return G.dataFrameCount(); }; k.at = [G](ndsize_t i) { return ni(G.getDataFrame(i)); };
          k.get = [G](const std::string &q, NI &o) { return opt_ni(G.getDataFrame(q), o); }; k.has = [G](const std::string &q) { return G.hasDataFrame(q); };
          k.has_handle = [G](ndsize_t i) { return G.hasDataFrame(G.getDataFrame(i)); }; k.list = [G] { std::vector<NI> v; for (auto &e : G.dataFrames(util::AcceptAll<DataFrame>())) v.push_back(ni(e)); return v; };
          k.create = [GW, B](const std::string &n) mutable { DataFrame a = B.getDataFrame(n); if (n.size() % 2) GW.addDataFrame(a); else GW.addDataFrame(a.id()); return a.id(); };
          k.remove = [G, B](const NI &x, int how) mutable { return how == 0 ? G.removeDataFrame(x.first) : how == 1 ? G.removeDataFrame(x.second) : G.removeDataFrame(B.getDataFrame(x.second)); };
          k.set_all = [G, B](const std::vector<std::string> &n) mutable { std::vector<DataFrame> v; for (auto &x : n) v.push_back(B.getDataFrame(x)); G.dataFrames(v); }; conts.push_back(k); }
        { Cont k; k.key = "group[G0].multiTags"; k.kind = "group.multiTags"; k.membership = true;
          k.count = [G] { return G.multiTagCount(); }; k.at = [G](ndsize_t i) { return ni(G.getMultiTag((size_t)i)); };
          k.get = [G](const std::string &q, NI &o) { return opt_ni(G.getMultiTag(q), o); }; k.has = [G](const std::string &q) { return G.hasMultiTag(q); };
          k.has_handle = [G](ndsize_t i) { return G.hasMultiTag(G.getMultiTag((size_t)i)); }; k.list = [G] { std::vector<NI> v; for (auto &e : G.multiTags(util::AcceptAll<MultiTag>())) v.push_back(ni(e)); return v; };
          k.create = [GW, B](const std::string &n) mutable { MultiTag a = B.getMultiTag(n); GW.addMultiTag(a); return a.id(); };
          k.remove = [G, B](const NI &x, int how) mutable { return how == 0 ? G.removeMultiTag(x.first) : how == 1 ? G.removeMultiTag(x.second) : G.removeMultiTag(B.getMultiTag(x.second)); };
          k.set_all = [G, B](const std::vector<std::string> &n) mutable { std::vector<MultiTag> v; for (auto &x : n) v.push_back(B.getMultiTag(x)); G.multiTags(v); }; conts.push_back(k); }
        { Cont k; k.key = "array[pos].sources"; k.kind = "entity.sources"; k.membership = true; k.by_name = false;
          k.count = [A] { return A.sourceCount(); }; k.at = [A](ndsize_t i) { return ni(A.getSource((size_t)i)); };
          k.get = [A](const std::string &q, NI &o) { return opt_ni(A.getSource(q), o); }; k.has = [A](const std::string &q) { return A.hasSource(q); };
          k.has_handle = [A](ndsize_t i) { return A.hasSource(A.getSource((size_t)i)); }; k.list = [A] { std::vector<NI> v; for (auto &e : A.sources()) v.push_back(ni(e)); return v; };
          k.create = [AW, B](const std::string &n) mutable { Source s = B.getSource(n); if (n.size() % 2) AW.addSource(s); else AW.addSource(s.id()); return s.id(); };
          k.remove = [A, B](const NI &x, int how) mutable { return how == 1 ? A.removeSource(x.second) : A.removeSource(B.getSource(x.second)); }; k.set_all = [A, B](const std::vector<std::string> &n) mutable { std::vector<Source> v; for (auto &x : n) v.push_back(B.getSource(x)); A.sources(v); }; conts.push_back(k); }
        { Cont k; k.key = "tag[T0].features"; k.kind = "tag.features"; k.membership = false; k.named = false; k.by_name = false;
          k.count = [T] { return T.featureCount(); }; k.at = [T](ndsize_t i) { Feature x = T.getFeature(i); return NI(x.id(), x.id()); };
          k.get = [T](const std::string &q, NI &o) { Feature x = T.getFeature(q); if (!x) return false; o = NI(x.id(), x.id()); return true; }; k.has = [T](const std::string &q) { return T.hasFeature(q); };
          k.has_handle = [T](ndsize_t i) { return T.hasFeature(T.getFeature(i)); }; k.list = [T] { std::vector<NI> v; for (auto &e : T.features()) v.push_back(NI(e.id(), e.id())); return v; };
          k.create = [TW, A](const std::string &) mutable { return TW.createFeature(A, LinkType::Untagged).id(); };
          k.remove = [T](const NI &x, int how) mutable { return how == 2 ? T.deleteFeature(T.getFeature(x.second)) : T.deleteFeature(x.second); }; conts.push_back(k); }
    }
    static std::string owner_of(const std::string &kind) { return kind == "group.tags" ? "block[B0].tags" : kind == "entity.sources" ? "block[B0].sources" : kind == "group.dataFrames" ? "block[B0].dataFrames" : kind == "group.multiTags" ? "block[B0].multiTags" : "block[B0].dataArrays"; }
    static std::string sibling(const std::string &key) { if (key == "section[S0].sections") return "section[S0/c].sections"; if (key == "section[S0/c].sections") return "section[S0].sections"; if (key == "source[src0].sources") return "source[src0/c].sources"; if (key == "source[src0/c].sources") return "source[src0].sources"; return ""; }
    Cont *find(const std::string &key) { for (auto &k : conts) if (k.key == key) return &k; return nullptr; }

    void build() {
        f = File::open(path, FileMode::Overwrite, "hdf5", r.chance(0.5) ? Compression::Auto : Compression::None);
        Block b = f.createBlock("B0", "t"); f.createBlock("B1", "t");
        Section s = f.createSection("S0", "t"); s.createSection("c", "t");
        Source so = b.createSource("src0", "t"); so.createSource("c", "t");
        DataArray pos = b.createDataArray("pos", "t", DataType::Double, NDSize{3});
        tC = b.createTag("T0", "t", {1.0}); mC = b.createMultiTag("M0", "t", pos); gC = b.createGroup("G0", "t"); aC = pos;
        bind();
        for (auto &k : conts) shadow[k.key] = k.list();   // the skeleton children are the first entries, in creation order
    }

    // --------------------------------------------------------------- the invariant monitor
    void monitor(Cont &k, const char *when) {
        std::vector<NI> &sh = shadow[k.key]; const std::string K = "C03/" + k.kind + "/";
        ndsize_t n = 0; try { n = k.count(); } catch (std::exception &e) { c.check(false, K + "count-exception", e.what()); return; }
        c.check((size_t)n == sh.size(), K + "count", [&] { return k.key + ": count()=" + str(n) + " but " + str(sh.size()) + " children are live (" + when + ")"; });
        std::vector<NI> byidx;
        for (ndsize_t i = 0; i < n; i++) { try { byidx.push_back(k.at(i)); } catch (std::exception &e) { c.check(false, K + "index-exception", k.key + ": get(" + str(i) + ") of " + str(n) + " threw " + e.what()); return; } }
        // order = creation order of the survivors
        bool same = byidx.size() == sh.size(); for (size_t i = 0; same && i < sh.size(); i++) same = byidx[i] == sh[i];
        c.check(same, K + "order", [&] { std::string a, b; for (auto &x : byidx) a += x.first.substr(0, 12) + ","; for (auto &x : sh) b += x.first.substr(0, 12) + ","; return k.key + ": index order [" + a + "] expected creation order of survivors [" + b + "] (" + when + ")"; });
        // names / ids pairwise distinct
        std::set<std::string> names, ids; for (auto &x : byidx) { if (k.named && !k.membership) c.check(names.insert(x.first).second, K + "duplicate-name", k.key + ": two children named '" + x.first + "'"); c.check(ids.insert(x.second).second, K + "duplicate-id", k.key + ": two children with id " + x.second); }
        // vector getter agrees
        try { std::vector<NI> l = k.list(); c.check(l == byidx, K + "enumeration", [&] { return k.key + ": enumeration (" + str(l.size()) + " entries) differs from index access (" + str(byidx.size()) + ")"; }); } catch (std::exception &e) { c.check(false, K + "enumeration-exception", e.what()); }
        // every access path finds every child
        for (size_t i = 0; i < byidx.size(); i++) {
            const NI &x = byidx[i]; bool uuid_name = util::looksLikeUUID(x.first);
            std::string cls = uuid_name ? "uuid-name" : "name";
            auto probe = [&](const std::string &q, const char *by) {
                NI got; bool ok = false, threw = false; try { ok = k.get(q, got); } catch (std::exception &) { threw = true; }
                c.check(ok && got.second == x.second, K + "get-by-" + by + (std::string(by) == "name" ? "/" + cls : ""), [&] { return k.key + ": get(" + by + " '" + q.substr(0, 40) + "') " + (threw ? "threw" : ok ? "returned another entity " + got.second : "found nothing") + " for live child #" + str(i) + " id " + x.second; });
                bool h = false; try { h = k.has(q); } catch (std::exception &) {}
                c.check(h, K + "has-by-" + by + (std::string(by) == "name" ? "/" + cls : ""), [&] { return k.key + ": has(" + by + " '" + q.substr(0, 40) + "') is false for live child #" + str(i); });
            };
            if (k.by_name && k.named) probe(x.first, "name");
            probe(x.second, "id");
            bool hh = false; try { hh = k.has_handle((ndsize_t)i); } catch (std::exception &) {}
            c.check(hh, K + "has-by-handle" + (uuid_name ? "/uuid-name" : ""), [&] { return k.key + ": has(handle) is false for live child #" + str(i) + " '" + x.first.substr(0, 40) + "'"; });
        }
        // names that are not live are absent on all paths
        std::vector<std::string> probes = graveyard[k.key]; probes.push_back("never-" + str(serial)); probes.push_back(uuid_like(r)); if (probes.size() > 6) probes.erase(probes.begin(), probes.end() - 6);
        for (auto &q : probes) {
            bool live = false; for (auto &x : sh) if (x.first == q || x.second == q) live = true; if (live || q.empty()) continue;
            NI got; bool ok = false; try { ok = k.get(q, got); } catch (std::exception &) {} bool h = false; try { h = k.has(q); } catch (std::exception &) {}
            c.check(!ok && !h, K + "ghost", [&] { return k.key + ": '" + q.substr(0, 40) + "' is not a live child but get=" + str(ok) + " has=" + str(h); });
        }
        c.count("monitor_runs");
    }
    void monitor_all(const char *when) { for (auto &k : conts) monitor(k, when); }

    void forget_everywhere(const std::string &id) {   // a deleted entity disappears from every membership list
        for (auto &k : conts) if (k.membership) { auto &sh = shadow[k.key]; for (size_t i = 0; i < sh.size();) if (sh[i].second == id) sh.erase(sh.begin() + (long)i); else i++; }
    }

    void step() {
        // each case concentrates on a few containers so that they fill up, empty and collide
        if (focus.empty()) { size_t nf = 5 + r.u(4); while (focus.size() < nf) { size_t i = r.u(conts.size()); if (std::find(focus.begin(), focus.end(), conts[i].key) == focus.end()) focus.push_back(conts[i].key); } }
        Cont &k = r.chance(0.85) ? *find(focus[r.u(focus.size())]) : conts[r.u(conts.size())]; std::vector<NI> &sh = shadow[k.key];
        int act = (int)r.weighted({6, 4, 2});
        size_t protect = 0;   // skeleton children that must survive (they carry other tracked containers)
        if (k.key == "file.blocks") protect = 2; else if (k.key == "file.sections" || k.key == "section[S0].sections" || k.key == "block[B0].sources" || k.key == "source[src0].sources" || k.key == "block[B0].dataArrays" || k.key == "block[B0].tags" || k.key == "block[B0].multiTags" || k.key == "block[B0].groups") protect = 1;
        if (act == 0 && sh.size() < 9) {           // create (or add a member)
            std::string nm;
            if (k.membership) {   // pick an existing entity of the owner container that is not yet a member
                std::string owner = owner_of(k.kind);
                std::vector<NI> cand; for (auto &x : shadow[owner]) { bool in = false; for (auto &y : sh) if (y.second == x.second) in = true; if (!in) cand.push_back(x); }
                if (cand.empty()) return; nm = cand[r.u(cand.size())].first;
            } else {
                nm = (k.named && !dead_names[k.key].empty() && r.chance(0.25)) ? dead_names[k.key][r.u(dead_names[k.key].size())]   /* the name of a child deleted earlier is used again: the new child is another entity, the old id stays dead */ : (k.named && !sh.empty() && r.chance(0.15)) ? sh[r.u(sh.size())].first : (k.named && !h5path(k.key).empty() && r.chance(0.07)) ? boundary_name(h5path(k.key)) : fresh_name();   // sometimes an existing name on purpose, sometimes one of a critical path length
                std::string sib = sibling(k.key); if (!sib.empty() && r.chance(0.35) && !shadow[sib].empty()) { std::string cand = shadow[sib][r.u(shadow[sib].size())].first; if (cand != "c") nm = cand; }   // or the name of a child of the sibling container
            }
            bool dup = false; if (k.named && !k.membership) for (auto &x : sh) if (x.first == nm) dup = true;
            c.op("create " + k.kind + (dup ? " duplicate-name" : "") + " | '" + nm.substr(0, 40) + "'");
            std::string id; bool threw = false; std::string exc;
            try { id = k.create(nm); } catch (std::exception &e) { threw = true; exc = e.what(); }
            if (dup) c.count("duplicate_name_attempts");
            if (dup) c.check(threw, "C03/" + k.kind + "/duplicate-name-accepted", [&] { return k.key + ": a second child named '" + nm.substr(0, 40) + "' was accepted"; });
            else if (threw) { c.check(false, "C03/" + k.kind + "/legal-name-rejected", k.key + ": create('" + nm.substr(0, 60) + "') threw: " + exc); }
            else sh.emplace_back(k.named ? nm : id, id);
            if (!k.named && !threw) sh.back().first = id;
            c.count("creates");
        } else if (act == 1 && sh.size() > protect) {   // delete / remove by name, id or handle
            size_t i = protect + r.u(sh.size() - protect); NI x = sh[i]; int how = (int)r.u(3); if (!k.by_name && how == 0) how = 1;
            c.op("delete " + k.kind + " by-" + (how == 0 ? "name" : how == 1 ? "id" : "handle") + " | '" + x.first.substr(0, 40) + "'");
            bool ok = false; try { ok = k.remove(x, how); } catch (std::exception &e) { c.check(false, "C03/" + k.kind + "/delete-exception", k.key + ": delete threw " + e.what()); return; }
            c.check(ok, "C03/" + k.kind + "/delete-returned-false/" + (how == 0 ? (util::looksLikeUUID(x.first) ? "uuid-name" : "name") : how == 1 ? "id" : "handle"), [&] { return k.key + ": delete of live child '" + x.first.substr(0, 40) + "' by " + (how == 0 ? "name" : how == 1 ? "id" : "handle") + " returned false"; });
            if (ok) { sh.erase(sh.begin() + (long)i); if (k.named) { graveyard[k.key].push_back(x.first); dead_names[k.key].push_back(x.first); } graveyard[k.key].push_back(x.second); if (!k.membership) forget_everywhere(x.second); }
            c.count("deletes");
        } else if (k.membership && k.set_all && r.chance(0.6)) {   // replace all members by a vector: the members are then exactly the vector, in its order
            std::string owner = owner_of(k.kind);
            std::vector<NI> pick; for (auto &x : shadow[owner]) if (r.chance(0.5) && pick.size() < 6) pick.push_back(x); for (size_t i = pick.size(); i > 1; i--) std::swap(pick[i - 1], pick[r.u(i)]);
            if (!sh.empty() && !pick.empty() && r.chance(0.5)) { bool in = false; for (auto &y : pick) if (y.second == sh[0].second) in = true; if (!in) pick.push_back(sh[0]); }   // overlap with the current members
            std::vector<std::string> names; for (auto &x : pick) names.push_back(x.first);
            c.op("set-vector " + k.kind + " | n=" + str(names.size()));
            try { k.set_all(names); sh = pick; } catch (std::exception &e) { c.check(false, "C03/" + k.kind + "/vector-setter-threw", k.key + ": vector setter threw " + e.what()); }
            c.count("vector_setters");
        } else if (k.has_foreign && !sibling(k.key).empty()) {   // the handle of a namesake child of the sibling container is not a child here
            std::string sib = sibling(k.key);
            for (auto &x : shadow[sib]) { bool namesake = false; for (auto &y : sh) if (y.first == x.first && y.second != x.second) namesake = true; if (!namesake) continue;
                c.op("probe-foreign-handle " + k.kind + " | '" + x.first.substr(0, 30) + "'");
                bool h = true; try { h = k.has_foreign(x); } catch (std::exception &) { h = false; }
                c.check(!h, "C03/" + k.kind + "/has-by-foreign-handle", [&] { return k.key + ": has(handle) is true for the namesake '" + x.first.substr(0, 30) + "' that belongs to " + sib; });
                bool del = true; try { del = k.remove_foreign(x); } catch (std::exception &) { del = false; }
                c.check(!del, "C03/" + k.kind + "/delete-by-foreign-handle", [&] { return k.key + ": delete(handle of " + sib + "'s namesake '" + x.first.substr(0, 30) + "') returned true"; });
                c.count("foreign_handle_probes"); monitor(*find(sib), "after foreign-handle probe"); break; }
        } else {
            c.op("probe " + k.kind);
        }
        monitor(k, "after op");
        if (k.key.rfind("block[B0].", 0) == 0) for (auto &m : conts) if (m.membership) monitor(m, "after op on owner container");
    }
    void reopen() {
        c.op("close+reopen");
        conts.clear(); gC = nix::none; tC = nix::none; mC = nix::none; aC = nix::none; f.close();
        f = File::open(path, r.chance(0.5) ? FileMode::ReadWrite : FileMode::ReadOnly);
        bind(); monitor_all("after reopen");
        if (f.fileMode() == FileMode::ReadOnly) { conts.clear(); f.close(); f = File::open(path, FileMode::ReadWrite); bind(); }
    }
};

void run_case(Ctx &c) {
    World w(c); w.path = c.path("c03.nix"); w.build();
    w.monitor_all("skeleton");
    int nops = c.quick() ? 40 : 60;
    for (int i = 0; i < nops; i++) { w.step(); if (i % 10 == 9) w.monitor_all("periodic"); if (c.rng.chance(0.05)) w.reopen(); }
    w.reopen(); w.monitor_all("final");
    for (auto &k : w.conts) c.fp(k.kind + str(w.shadow[k.key].size()));
    c.nontrivial = c.checks > 50;
    w.conts.clear(); w.gC = nix::none; w.tC = nix::none; w.mC = nix::none; w.aC = nix::none; w.f.close();
}
long ncases(const std::string &tier) { return tier == "quick" ? 300 : 8000; }
std::vector<std::string> witnesses() { return {"d3-duplicate-dataframe", "d13-uuid-named-reference"}; }
void run_witness(Ctx &c, const std::string &name) {
    World w(c); w.path = c.path("w.nix"); w.build();
    if (name == "d3-duplicate-dataframe") {
        Cont &k = *w.find("block[B0].dataFrames"); std::string id1 = k.create("frame"); w.shadow[k.key].emplace_back("frame", id1);
        c.op("create block.dataFrames duplicate-name | 'frame'");
        bool threw = false; try { k.create("frame"); } catch (std::exception &) { threw = true; }
        c.check(threw, "C03/block.dataFrames/duplicate-name-accepted", "a second data frame named 'frame' was accepted");
        w.monitor(k, "after duplicate create");
    } else if (name == "d13-uuid-named-reference") {
        Cont &arrays = *w.find("block[B0].dataArrays"); std::string nm = "01234567-89ab-cdef-0123-456789abcdef"; std::string id = arrays.create(nm); w.shadow[arrays.key].emplace_back(nm, id);
        for (const char *ck : {"tag[T0].references", "multitag[M0].references", "group[G0].dataArrays"}) { Cont &k = *w.find(ck); c.op(std::string("create ") + k.kind + " | uuid-shaped name"); k.create(nm); w.shadow[k.key].emplace_back(nm, id); w.monitor(k, "uuid-named member"); }
    }
    c.nontrivial = true; w.conts.clear(); w.gC = nix::none; w.tC = nix::none; w.mC = nix::none; w.aC = nix::none; w.f.close();
}
Reg reg({"C03", ncases, run_case, witnesses, run_witness, 120});
}  // namespace
