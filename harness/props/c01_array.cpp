// C01 - array data round trip: what is written is what is read.
#include "core/core.hpp"
#include "core/arraymodel.hpp"
#include <nix/hydra/multiArray.hpp>
#include <boost/multi_array.hpp>
#include <valarray>
using namespace vm;
using namespace nix;

namespace {

struct Calib { bool on = false; std::vector<double> poly; bool has_origin = false; double origin = 0; };

struct H {   // one history
    Ctx &c; Rng &r; File f; Block b; DataArray a, a1, a2;   // a = handle used by the next operation; a1/a2 independently obtained handles of the same array
    ArrayModel m; Calib cal; uint64_t ord = 1; bool small_ints = false;
    std::string path; Compression file_comp; std::string tname;
    H(Ctx &cx) : c(cx), r(cx.rng) {}
    std::string K(const std::string &what) { return "C01/" + what + "/" + tname; }

    std::vector<Val> fresh(size_t n) { std::vector<Val> v(n); for (auto &x : v) x = gen_val(m.dt, ord++, r, small_ints); return v; }
    void rand_box(std::vector<long> &off, std::vector<long> &cnt, bool allow_whole = true) {
        size_t R = m.rank(); off.assign(R, 0); cnt.assign(R, 1);
        if (allow_whole && r.chance(0.2)) { cnt = m.shape; return; }
        for (size_t d = 0; d < R; d++) { off[d] = (long)r.u(m.shape[d]); cnt[d] = 1 + (long)r.u(m.shape[d] - off[d]); }
    }
    // read (raw API) and compare with the model; direct=true uses getDataDirect
    void verify_box(const std::vector<long> &off, const std::vector<long> &cnt, const char *why) {
        long n = ArrayModel::nelms(cnt); if (n <= 0) return;
        RawBuf buf(m.dt, (size_t)n, 0xAB);
        bool direct = cal.on || r.chance(0.3);
        c.op(std::string(direct ? "getDataDirect " : "getData ") + tname + " rank" + str(m.rank()) + " " + why + " | off=" + vshow(off) + " cnt=" + vshow(cnt));
        try { if (direct) a.getDataDirect(m.dt, buf.data(), to_nd(cnt), to_nd(off)); else a.getData(m.dt, buf.data(), to_nd(cnt), to_nd(off)); }
        catch (std::exception &e) { c.check(false, K("read-exception"), std::string("valid read threw: ") + e.what() + " off=" + vshow(off) + " cnt=" + vshow(cnt) + " shape=" + vshow(m.shape)); return; }
        std::vector<Val> got = buf.unpack((size_t)n), want = m.read_box(off, cnt);
        std::string d = first_diff(m.dt, want, got, off, cnt);
        c.check(d.empty(), K(std::string("roundtrip/") + why), [&] { return d + " shape=" + vshow(m.shape) + " off=" + vshow(off) + " cnt=" + vshow(cnt); });
        c.count("cells_compared", n);
    }
    void verify_all(const char *why) {
        NDSize e = a.dataExtent();
        c.check(from_nd(e) == m.shape, K("extent"), [&] { return "dataExtent()=" + vshow(from_nd(e)) + " model=" + vshow(m.shape) + " after " + why; });
        if (from_nd(e) != m.shape) return;
        if (m.n() > 0) verify_box(std::vector<long>(m.rank(), 0), m.shape, why);
        DataType dt = a.dataType();
        c.check(dt == m.dt, K("dtype"), [&] { return "dataType()=" + dtname(dt) + " created as " + dtname(m.dt); });
    }

    // ----- typed containers (numeric types and String via vector)
    template <typename T> void typed_write_vector(bool valarr) {
        // rank-1 arrays only: the typed setData(container, offset) takes its count from the container's shape
        long off = (long)r.u(m.shape[0]); long n = 1 + (long)r.u(m.shape[0] - off);
        std::vector<Val> vals = fresh((size_t)n);
        c.op(std::string(valarr ? "setData-valarray " : "setData-vector ") + tname + " | off=" + str(off) + " n=" + str(n));
        if (valarr) { std::valarray<T> v((size_t)n); for (long i = 0; i < n; i++) v[(size_t)i] = val_as<T>(vals[(size_t)i]); a.setData(v, NDSize{(ndsize_t)off}); }
        else { std::vector<T> v((size_t)n); for (long i = 0; i < n; i++) v[(size_t)i] = val_as<T>(vals[(size_t)i]); a.setData(v, NDSize{(ndsize_t)off}); }
        m.write_box({off}, {n}, vals);
        verify_box({off}, {n}, "typed-vector-write");
    }
    template <typename T> void typed_read_vector() {
        // count with at most one extent > 1
        size_t R = m.rank(); std::vector<long> off(R), cnt(R, 1); size_t ax = r.u(R);
        for (size_t d = 0; d < R; d++) off[d] = (long)r.u(m.shape[d]);
        cnt[ax] = 1 + (long)r.u(m.shape[ax] - off[ax]);
        std::vector<T> v(3, T());
        c.op("getData-vector " + tname + " rank" + str(R) + " | off=" + vshow(off) + " cnt=" + vshow(cnt));
        if (cal.on) return;
        a.getData(v, to_nd(cnt), to_nd(off));
        std::vector<Val> want = m.read_box(off, cnt), got; for (auto &x : v) got.push_back(val_of<T>(x));
        std::string d = first_diff(m.dt, want, got, off, cnt);
        c.check(d.empty(), K("roundtrip/typed-vector-read"), [&] { return d + " shape=" + vshow(m.shape); });
    }
    template <typename T, size_t N> void typed_multi_array(bool whole) {
        typedef boost::multi_array<T, N> MA;
        std::vector<long> off, cnt;
        if (whole) { off.assign(N, 0); cnt.resize(N); for (size_t d = 0; d < N; d++) cnt[d] = 1 + (long)r.u(6); }   // whole-array setData: the array takes the container's shape
        else rand_box(off, cnt, false);
        boost::array<typename MA::index, N> ext; for (size_t d = 0; d < N; d++) ext[d] = cnt[d];
        MA ma(ext); std::vector<Val> vals = fresh((size_t)ArrayModel::nelms(cnt));
        for (size_t i = 0; i < vals.size(); i++) ma.data()[i] = val_as<T>(vals[i]);
        c.op(std::string(whole ? "setData-multi_array-whole " : "setData-multi_array ") + tname + " rank" + str(N) + " | off=" + vshow(off) + " cnt=" + vshow(cnt));
        if (whole) { a.setData(ma); m.resize(cnt); } else a.setData(ma, to_nd(off));
        m.write_box(off, cnt, vals);
        if (whole) verify_all("multi_array-whole-write"); else verify_box(off, cnt, "multi_array-write");
        // and read back through a multi_array
        if (!cal.on) {
            MA back; c.op("getData-multi_array " + tname + " rank" + str(N));
            a.getData(back, to_nd(cnt), to_nd(off));
            std::vector<Val> got; for (size_t i = 0; i < back.num_elements(); i++) got.push_back(val_of<T>(back.data()[i]));
            bool shape_ok = true; for (size_t d = 0; d < N; d++) shape_ok = shape_ok && (long)back.shape()[d] == cnt[d];
            std::string d = shape_ok ? first_diff(m.dt, m.read_box(off, cnt), got, off, cnt) : "multi_array shape wrong";
            c.check(d.empty(), K("roundtrip/multi_array-read"), [&] { return d + " shape=" + vshow(m.shape); });
        }
    }
    template <typename T> void typed_scalar() {
        size_t R = m.rank(); std::vector<long> off(R); for (size_t d = 0; d < R; d++) off[d] = (long)r.u(m.shape[d]);
        if (r.chance(0.5)) {
            std::vector<Val> vals = fresh(1); T v = val_as<T>(vals[0]);
            c.op("setData-scalar " + tname + " rank" + str(R) + " | off=" + vshow(off));
            a.setData(v, to_nd(off)); m.write_box(off, std::vector<long>(R, 1), vals);
        }
        if (cal.on) return;
        T g = T(); c.op("getData-scalar " + tname + " rank" + str(R) + " | off=" + vshow(off));
        a.getData(g, to_nd(off));
        Val want = m.read_box(off, std::vector<long>(R, 1))[0];
        c.check(val_of<T>(g) == want, K("roundtrip/scalar"), [&] { return "cell " + vshow(off) + " got " + val_show(m.dt, val_of<T>(g)) + " want " + val_show(m.dt, want); });
    }
    template <typename T> void typed_op() {
        size_t R = m.rank(); int k = (int)r.u(6);
        if (m.n() <= 0) return;
        if (k == 0 && R == 1) typed_write_vector<T>(false);
        else if (k == 1 && R == 1) typed_write_vector<T>(true);
        else if (k == 2) typed_read_vector<T>();
        else if (k == 3) typed_scalar<T>();
        else if (R == 1) typed_multi_array<T, 1>(r.chance(0.3));
        else if (R == 2) typed_multi_array<T, 2>(r.chance(0.3));
        else if (R == 3) typed_multi_array<T, 3>(r.chance(0.3));
        else typed_read_vector<T>();
    }
    void typed_dispatch() {
        switch (m.dt) {
        case DataType::Int8: typed_op<int8_t>(); break; case DataType::Int16: typed_op<int16_t>(); break; case DataType::Int32: typed_op<int32_t>(); break; case DataType::Int64: typed_op<int64_t>(); break;
        case DataType::UInt8: typed_op<uint8_t>(); break; case DataType::UInt16: typed_op<uint16_t>(); break; case DataType::UInt32: typed_op<uint32_t>(); break; case DataType::UInt64: typed_op<uint64_t>(); break;
        case DataType::Float: typed_op<float>(); break; case DataType::Double: typed_op<double>(); break;
        case DataType::Bool: { size_t R = m.rank(); if (m.n() <= 0) break; if (R == 1) typed_multi_array<bool, 1>(r.chance(0.3)); else if (R == 2) typed_multi_array<bool, 2>(r.chance(0.3)); else if (R == 3) typed_multi_array<bool, 3>(r.chance(0.3)); break; }
        case DataType::String: string_vector_op(); break;
        default: break;
        }
    }
    void string_vector_op() {
        if (m.n() <= 0) return;
        size_t R = m.rank();
        if (R == 1 && r.chance(0.5)) {
            long off = (long)r.u(m.shape[0]); long n = 1 + (long)r.u(m.shape[0] - off); std::vector<Val> vals = fresh((size_t)n);
            std::vector<std::string> v; for (auto &x : vals) v.push_back(x.s);
            c.op("setData-vector String | off=" + str(off) + " n=" + str(n));
            a.setData(v, NDSize{(ndsize_t)off}); m.write_box({off}, {n}, vals); verify_box({off}, {n}, "typed-vector-write");
        } else {
            std::vector<long> off(R), cnt(R, 1); size_t ax = r.u(R); for (size_t d = 0; d < R; d++) off[d] = (long)r.u(m.shape[d]);
            cnt[ax] = 1 + (long)r.u(m.shape[ax] - off[ax]);
            std::vector<std::string> v; c.op("getData-vector String rank" + str(R) + " | off=" + vshow(off) + " cnt=" + vshow(cnt));
            a.getData(v, to_nd(cnt), to_nd(off));
            std::vector<Val> got; for (auto &x : v) got.push_back(val_of_str(x));
            std::string d = first_diff(m.dt, m.read_box(off, cnt), got, off, cnt);
            c.check(d.empty(), K("roundtrip/typed-vector-read"), [&] { return d; });
        }
    }

    // ----- calibration
    void set_calibration() {
        int k = (int)r.u(5);
        if (k == 0 && cal.on) {
            c.op("polynomCoefficients-none+origin-none " + tname);
            a.polynomCoefficients(nix::none); a.expansionOrigin(nix::none); cal = Calib(); return;
        }
        if (k <= 2) { int deg = (int)r.range(0, 3); cal.poly.clear(); for (int i = 0; i <= deg; i++) cal.poly.push_back((double)r.range(-3, 3)); c.op("polynomCoefficients " + tname + " | deg=" + str(deg)); a.polynomCoefficients(cal.poly); }
        if (k >= 2) { cal.origin = (double)r.range(-5, 5); cal.has_origin = true; c.op("expansionOrigin " + tname + " | " + dstr(cal.origin)); a.expansionOrigin(cal.origin); }
        cal.on = !cal.poly.empty() || cal.has_origin;
        // getters must echo
        std::vector<double> pc = a.polynomCoefficients(); boost::optional<double> og = a.expansionOrigin();
        c.check(pc == cal.poly && (cal.has_origin ? (og && *og == cal.origin) : !og), K("calibration-getters"), "polynomCoefficients/expansionOrigin do not echo what was set");
    }
    void calibrated_read() {
        if (!cal.on || m.n() <= 0) return;
        std::vector<long> off, cnt; rand_box(off, cnt); long n = ArrayModel::nelms(cnt);
        static const DataType targets[] = {DataType::Double, DataType::Double, DataType::Float, DataType::Int64, DataType::Int32, DataType::Int16, DataType::UInt32, DataType::UInt64, DataType::Int8, DataType::UInt8, DataType::UInt16};
        DataType tgt = r.pick(targets);
        std::vector<Val> src = m.read_box(off, cnt), want((size_t)n); bool judge = true;
        for (long i = 0; i < n && judge; i++) {
            long double x = val_num(m.dt, src[(size_t)i]) - (cal.has_origin ? cal.origin : 0.0), v = 0, term = 1;
            if (cal.poly.empty()) v = x; else for (double co : cal.poly) { v += co * term; term *= x; }
            judge = std::fabs((double)v) < 9e15 && num_to_val(tgt, v, want[(size_t)i]);
        }
        RawBuf buf(tgt, (size_t)n, 0xCD);
        c.op("getData-calibrated " + tname + " as " + dtname(tgt) + " | off=" + vshow(off) + " cnt=" + vshow(cnt));
        try { a.getData(tgt, buf.data(), to_nd(cnt), to_nd(off)); } catch (std::exception &e) { if (judge) c.check(false, K("calibrated-exception"), std::string("calibrated read threw: ") + e.what()); return; }
        if (!judge) { c.count("calibrated_unjudged"); return; }
        std::string d = first_diff(tgt, want, buf.unpack((size_t)n), off, cnt);
        c.check(d.empty(), K("calibrated/" + dtname(tgt)), [&] { std::string p; for (double x : cal.poly) p += dstr(x) + ","; return d + " poly=[" + p + "] origin=" + (cal.has_origin ? dstr(cal.origin) : "none") + " stored type " + tname; });
        c.count("calibrated_cells", n);
        // raw reads are unaffected
        verify_box(off, cnt, "raw-under-calibration");
    }
    // read as another numeric type: judged where every source value is exactly representable
    void converting_read() {
        if (!is_numeric(m.dt) || cal.on || m.n() <= 0) return;
        static const DataType nums[] = {DataType::Int8, DataType::Int16, DataType::Int32, DataType::Int64, DataType::UInt8, DataType::UInt16, DataType::UInt32, DataType::UInt64, DataType::Float, DataType::Double};
        DataType tgt = r.pick(nums); std::vector<long> off, cnt; rand_box(off, cnt); long n = ArrayModel::nelms(cnt);
        std::vector<Val> src = m.read_box(off, cnt), want((size_t)n); bool judge = true;
        for (long i = 0; i < n && judge; i++) judge = exact_convert(m.dt, src[(size_t)i], tgt, want[(size_t)i]);
        RawBuf buf(tgt, (size_t)n, 0xEF);
        c.op("getData-convert " + tname + " as " + dtname(tgt) + " | off=" + vshow(off) + " cnt=" + vshow(cnt));
        try { a.getData(tgt, buf.data(), to_nd(cnt), to_nd(off)); } catch (std::exception &e) { if (judge) c.check(false, K("convert-exception"), std::string("converting read threw: ") + e.what()); return; }
        if (!judge) { c.count("convert_unjudged"); return; }
        std::string d = first_diff(tgt, want, buf.unpack((size_t)n), off, cnt);
        c.check(d.empty(), K("convert/" + dtname(tgt)), [&] { return d + " stored type " + tname; });
    }

    void reopen() {
        bool ro_first = r.chance(0.5);
        c.op("close+reopen " + std::string(ro_first ? "RO-then-RW" : "RW") + " " + tname);
        std::string an = a.name(), bn = b.name();
        a = a1 = a2 = nix::none;
        f.close();
        if (ro_first) {
            f = File::open(path, FileMode::ReadOnly); b = f.getBlock(bn); a = b.getDataArray(an);
            verify_all("reopen-readonly");
            f.close();
        }
        f = File::open(path, FileMode::ReadWrite, "hdf5", file_comp); b = f.getBlock(bn); a1 = b.getDataArray(an); a2 = b.getDataArray(an); a = a1;
        verify_all("reopen-readwrite");
        // calibration survives too
        std::vector<double> pc = a.polynomCoefficients(); boost::optional<double> og = a.expansionOrigin();
        c.check(pc == cal.poly && (cal.has_origin ? (og && *og == cal.origin) : !og), K("calibration-reopen"), "calibration settings changed by reopen");
    }

    void run() {
        static const Compression comps[] = {Compression::None, Compression::DeflateNormal, Compression::Auto};
        file_comp = r.chance(0.5) ? Compression::Auto : (r.chance(0.5) ? Compression::DeflateNormal : Compression::None);
        path = c.path("c01.nix");
        f = File::open(path, FileMode::Overwrite, "hdf5", file_comp);
        b = f.createBlock("b", "t");
        DataType dt = r.pick(ALL_TYPES); size_t R = 1 + r.weighted({4, 4, 3, 2});
        std::vector<long> shape(R); long maxe = R >= 4 ? 5 : (R == 3 ? 7 : 12);
        for (auto &e : shape) e = r.chance(0.15) ? 1 : 1 + (long)r.u(maxe);
        Compression comp = r.pick(comps);
        tname = dtname(dt); small_ints = is_numeric(dt) && r.chance(0.4);
        c.fp(tname + "/r" + str(R) + "/c" + str((int)comp) + "/f" + str((int)file_comp) + (small_ints ? "/cal" : ""));
        c.count("type:" + tname); c.count("rank:" + str(R)); c.count("compression:" + str((int)comp) + "/file:" + str((int)file_comp));
        c.op("createDataArray " + tname + " rank" + str(R) + " | shape=" + vshow(shape) + " compression=" + str((int)comp));
        a1 = b.createDataArray("arr", "t", dt, to_nd(shape), comp); a2 = b.getDataArray("arr"); a = a1;
        m.init(dt, shape);
        verify_all("fresh-array-reads-zero");
        int nops = (int)r.range(10, 40);
        for (int i = 0; i < nops; i++) {
            // operations alternate between two independently obtained handles of the same array
            if (r.chance(0.15)) { c.op("getDataArray second-handle " + tname); a2 = r.chance(0.5) ? b.getDataArray("arr") : b.getDataArray(a1.id()); }
            a = r.chance(0.3) ? a2 : a1;
            int k = (int)r.weighted({6, 5, 3, 3, 5, 3, small_ints ? 3 : 0, small_ints ? 4 : 0, 2, 2});
            c.fp(str(k));
            try {
                switch (k) {
                case 0: {   // raw hyperslab write
                    if (m.n() <= 0) break;
                    std::vector<long> off, cnt; rand_box(off, cnt); std::vector<Val> vals = fresh((size_t)ArrayModel::nelms(cnt)); RawBuf buf(dt, vals.size()); buf.pack(vals);
                    bool direct = r.chance(0.3);
                    c.op(std::string(direct ? "setDataDirect " : "setData ") + tname + " rank" + str(R) + " | off=" + vshow(off) + " cnt=" + vshow(cnt));
                    if (direct) a.setDataDirect(dt, buf.data(), to_nd(cnt), to_nd(off)); else a.setData(dt, buf.data(), to_nd(cnt), to_nd(off));
                    m.write_box(off, cnt, vals); verify_box(off, cnt, "hyperslab-write"); break; }
                case 1: typed_dispatch(); break;
                case 2: {   // append along an axis
                    size_t ax = r.u(R); std::vector<long> cnt = m.shape; cnt[ax] = 1 + (long)r.u(3);
                    if (ArrayModel::nelms(cnt) <= 0 || m.shape[ax] + cnt[ax] > 40) break;
                    std::vector<Val> vals = fresh((size_t)ArrayModel::nelms(cnt)); RawBuf buf(dt, vals.size()); buf.pack(vals);
                    c.op("appendData " + tname + " rank" + str(R) + " | axis=" + str(ax) + " cnt=" + vshow(cnt));
                    a.appendData(dt, buf.data(), to_nd(cnt), ax);
                    std::vector<long> off(R, 0); off[ax] = m.shape[ax]; std::vector<long> ns = m.shape; ns[ax] += cnt[ax];
                    m.resize(ns); m.write_box(off, cnt, vals); verify_all("append"); break; }
                case 3: {   // extent change: grow, shrink, shrink-then-grow
                    std::vector<long> ns = m.shape; int how = (int)r.u(3);
                    for (size_t d = 0; d < R; d++) { if (r.chance(0.6)) ns[d] = how == 0 ? ns[d] + (long)r.u(4) : (how == 1 ? std::max(1L, ns[d] - (long)r.u(4)) : 1 + (long)r.u(maxe)); }
                    c.op("dataExtent " + tname + " rank" + str(R) + " | " + vshow(m.shape) + "->" + vshow(ns));
                    a.dataExtent(to_nd(ns)); m.resize(ns); verify_all("extent-change");
                    if (how == 1 && r.chance(0.7)) { std::vector<long> back = ns; for (auto &e : back) e += 1 + (long)r.u(3); c.op("dataExtent " + tname + " rank" + str(R) + " regrow | " + vshow(ns) + "->" + vshow(back)); a.dataExtent(to_nd(back)); m.resize(back); verify_all("shrink-then-grow"); }
                    break; }
                case 4: { if (m.n() <= 0) break; std::vector<long> off, cnt; rand_box(off, cnt); verify_box(off, cnt, "hyperslab-read"); break; }
                case 5: converting_read(); break;
                case 6: set_calibration(); break;
                case 7: calibrated_read(); break;
                case 8: reopen(); break;
                case 9: verify_all("whole-read"); break;
                }
            } catch (std::exception &e) {
                c.check(false, K("exception/op" + str(k)), std::string("valid operation threw: ") + e.what() + " shape=" + vshow(m.shape));
                break;
            }
            if (i % 5 == 4) verify_all("periodic");
        }
        verify_all("final");
        reopen();
        c.nontrivial = c.nops > 8;
        f.close();
    }
};

void run_case(Ctx &c) { H h(c); h.run(); }
long ncases(const std::string &tier) { return tier == "quick" ? 400 : 12000; }

// pinned witnesses
std::vector<std::string> witnesses() { return {"d1-string-unwritten", "d14-multiarray-shape"}; }
void run_witness(Ctx &c, const std::string &name) {
    File f = File::open(c.path("w.nix"), FileMode::Overwrite); Block b = f.createBlock("b", "t");
    if (name == "d1-string-unwritten") {
        // a String array that was created / grown but only partly written must read "" for the rest
        DataArray a = b.createDataArray("s", "t", DataType::String, NDSize{4});
        std::vector<std::string> two{"x", "yy"}; a.setData(DataType::String, two.data(), NDSize{2}, NDSize{1});
        c.op("getData String rank1 unwritten");
        std::vector<std::string> got(4, "\x01sentinel"); a.getData(DataType::String, got.data(), NDSize{4}, NDSize{0});
        c.check(got == std::vector<std::string>({"", "x", "yy", ""}), "C01/roundtrip/fresh-array-reads-zero/String", "partly written String array does not read back");
        a.dataExtent(NDSize{6});
        c.op("getData String rank1 grown");
        got.assign(6, "\x01sentinel"); a.getData(DataType::String, got.data(), NDSize{6}, NDSize{0});
        c.check(got == std::vector<std::string>({"", "x", "yy", "", "", ""}), "C01/roundtrip/extent-change/String", "grown String array does not read back");
    } else if (name == "d14-multiarray-shape") {
        // multi_array<int8_t,2> with an extent > 127, multi_array<uint8_t,1> with extent 300, multi_array<bool,2> with extent 3
        typedef boost::multi_array<int8_t, 2> M8; M8 m8(boost::extents[130][2]); for (size_t i = 0; i < m8.num_elements(); i++) m8.data()[i] = (int8_t)(i % 100);
        DataArray a = b.createDataArray("i8", "t", DataType::Int8, NDSize{1, 1});
        c.op("setData-multi_array-whole Int8 rank2 | 130x2");
        try { a.setData(m8); NDSize e = a.dataExtent(); c.check(e == NDSize({130, 2}), "C01/extent/Int8", "multi_array<int8_t,2>[130][2] stored with extent " + vshow(from_nd(e))); }
        catch (std::exception &e) { c.check(false, "C01/exception/multi_array-whole/Int8", std::string("storing multi_array<int8_t,2>[130][2] threw: ") + e.what()); }
        typedef boost::multi_array<bool, 2> MB; MB mb(boost::extents[3][2]); for (size_t i = 0; i < 6; i++) mb.data()[i] = i % 2;
        DataArray ab = b.createDataArray("bo", "t", DataType::Bool, NDSize{1, 1});
        c.op("setData-multi_array-whole Bool rank2 | 3x2");
        try { ab.setData(mb); NDSize e = ab.dataExtent(); c.check(e == NDSize({3, 2}), "C01/extent/Bool", "multi_array<bool,2>[3][2] stored with extent " + vshow(from_nd(e))); }
        catch (std::exception &e) { c.check(false, "C01/exception/multi_array-whole/Bool", std::string("storing multi_array<bool,2>[3][2] threw: ") + e.what()); }
    }
    c.nontrivial = true; f.close();
}
Reg reg({"C01", ncases, run_case, witnesses, run_witness, 90});
}  // namespace
