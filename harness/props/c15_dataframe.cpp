// C15 - DataFrame cells round trip through row, cell and column access.
#include "core/core.hpp"
#include "core/graph.hpp"
#include <cfloat>
#include <climits>
using namespace vm;
using namespace nix;

namespace {
const DataType TYPES[] = {DataType::Bool, DataType::Int32, DataType::UInt32, DataType::Int64, DataType::UInt64, DataType::Double, DataType::String};
struct MV { DataType t; uint64_t bits = 0; std::string s; bool operator==(const MV &o) const { return t == o.t && bits == o.bits && s == o.s; } bool operator!=(const MV &o) const { return !(*this == o); } };
MV of(const Variant &v) { MV m; m.t = v.type(); switch (m.t) { case DataType::Bool: m.bits = v.get<bool>(); break; case DataType::Int32: { int32_t x = v.get<int32_t>(); memcpy(&m.bits, &x, 4); break; } case DataType::UInt32: m.bits = v.get<uint32_t>(); break; case DataType::Int64: { int64_t x = v.get<int64_t>(); memcpy(&m.bits, &x, 8); break; } case DataType::UInt64: m.bits = v.get<uint64_t>(); break; case DataType::Double: { double x = v.get<double>(); memcpy(&m.bits, &x, 8); break; } case DataType::String: m.s = v.get<std::string>(); break; default: break; } return m; }
MV zero(DataType t) { MV m; m.t = t; return m; }
std::string show(const MV &m) { if (m.t == DataType::String) return "'" + (m.s.size() > 24 ? m.s.substr(0, 24) + "..." : m.s) + "'"; if (m.t == DataType::Double) { double d; memcpy(&d, &m.bits, 8); return hexd(d); } return dtname(m.t) + ":" + str(m.bits); }
template <typename T> MV ofT(DataType t, const T &x) { MV m; m.t = t; memcpy(&m.bits, &x, sizeof(T)); return m; }
MV ofS(const std::string &s) { MV m; m.t = DataType::String; m.s = s; return m; }

struct H {
    Ctx &c; Rng &r; File f; Block b; DataFrame df, df2; bool two = false, big = false; std::string path; std::vector<Column> cols; std::vector<std::vector<MV>> tab; uint64_t ord = 1;
    H(Ctx &cx) : c(cx), r(cx.rng) {}
    Variant gen(DataType t) {
        uint64_t o = ord++; bool ex = r.chance(0.08);
        switch (t) {
        case DataType::Bool: return Variant((bool)(o & 1));
        case DataType::Int32: return Variant((int32_t)(ex ? (r.chance(0.5) ? INT32_MIN : INT32_MAX) : (int32_t)(r.chance(0.5) ? (int64_t)o : -(int64_t)o)));
        case DataType::UInt32: return Variant((uint32_t)(ex ? UINT32_MAX : (uint32_t)(o + (r.chance(0.3) ? 0x80000000u : 0))));
        case DataType::Int64: return Variant((int64_t)(ex ? (r.chance(0.5) ? INT64_MIN : INT64_MAX) : (int64_t)(o * (r.chance(0.3) ? 0x100000001LL : 1)) * (r.chance(0.5) ? 1 : -1)));
        case DataType::UInt64: return Variant((uint64_t)(ex ? UINT64_MAX : (uint64_t)o + (r.chance(0.3) ? 0x8000000000000000ULL : 0)));
        case DataType::Double: { static const double e[] = {-0.0, INFINITY, DBL_MAX, 4.9e-324, 0.1}; return Variant(ex ? r.pick(e) : (double)o + 0.25); }
        default: { int k = (int)r.u(10); if (k == 0) return Variant(std::string()); if (k == 1) return Variant("w" + str(o) + std::string(500 + r.u(3000), 'x')); if (k == 2) return Variant("w" + str(o) + "\xc3\xa4\xe2\x82\xac"); return Variant("w" + str(o)); }
        }
    }
    std::string K(const std::string &w) { return "C15/" + w; }
    size_t nrows() const { return tab.size(); }
    // two independently obtained handles of the frame take turns: what one wrote (rows, cells) the other must read
    void flip() { if (df2 && r.chance(0.5)) { std::swap(df, df2); c.count("handle_switches"); } }

    // ---- read paths
    void check_row(size_t row, const char *when) {
        flip();
        c.op("readRow | row=" + str(row));
        try { std::vector<Variant> v = df.readRow(row); bool ok = v.size() == cols.size(); std::string d; for (size_t j = 0; ok && j < cols.size(); j++) if (of(v[j]) != tab[row][j]) { ok = false; d = "column " + str(j) + " (" + dtname(cols[j].dtype) + ") got " + show(of(v[j])) + " expected " + show(tab[row][j]); }
            c.check(ok, K("readRow/") + when, [&] { return "row " + str(row) + " of " + str(nrows()) + ": " + (d.empty() ? "wrong number of values " + str(v.size()) : d); }); }
        catch (std::exception &e) { c.check(false, K("readRow-exception"), std::string("readRow threw: ") + e.what() + " (" + when + ")"); }
        c.count("cells_compared", (long)cols.size());
    }
    void check_cells(size_t row, const char *when) {
        flip();
        try {
            size_t j = r.u(cols.size());
            c.op("readCell | row=" + str(row) + " col=" + str(j));
            Cell a = r.chance(0.5) ? df.readCell(row, (unsigned)j) : df.readCell(row, cols[j].name);
            c.check(of(a) == tab[row][j], K("readCell/") + dtname(cols[j].dtype), [&] { return "cell (" + str(row) + "," + str(j) + ") got " + show(of(a)) + " expected " + show(tab[row][j]) + " (" + when + ")"; });
            std::vector<std::string> names; std::vector<size_t> idx; size_t n = 1 + r.u(cols.size()); for (size_t k = 0; k < n; k++) { size_t q = r.u(cols.size()); if (std::find(idx.begin(), idx.end(), q) == idx.end()) { idx.push_back(q); names.push_back(cols[q].name); } }
            c.op("readCells | row=" + str(row) + " n=" + str(names.size()));
            std::vector<Cell> cs = df.readCells(row, names); bool ok = cs.size() == names.size(); for (size_t k = 0; ok && k < cs.size(); k++) ok = of(cs[k]) == tab[row][idx[k]];
            c.check(ok, K("readCells"), [&] { return "readCells of row " + str(row) + " differs from the model (" + when + ")"; });
            // cells as they come back from readCells (carrying names, in request order) written back unchanged: nothing may change
            if (ok && f.fileMode() != FileMode::ReadOnly && r.chance(0.5)) { c.op("writeCells of the cells just read | row=" + str(row) + " n=" + str(cs.size())); df.writeCells(row, cs); c.count("cells_written_back", (long)cs.size());
                std::vector<Variant> back = df.readRow(row); bool same = back.size() == cols.size(); for (size_t j = 0; same && j < cols.size(); j++) same = of(back[j]) == tab[row][j];
                c.check(same, K("writeCells-readback-roundtrip"), [&] { return "writing the cells returned by readCells(" + str(row) + ", names in request order) back changed row " + str(row) + " (" + when + ")"; }); }
        } catch (std::exception &e) { c.check(false, K("readCell-exception"), std::string("readCell(s) threw: ") + e.what() + " (" + when + ")"); }
    }
    template <typename T> void check_column_T(size_t j, const char *when) {
        if (!nrows()) return; DataType t = cols[j].dtype;
        size_t off = r.u(nrows()); bool resize = r.chance(0.5); int form = (int)r.u(3);
        std::vector<T> v; size_t expect = nrows() - off;
        c.op(std::string("readColumn ") + dtname(t) + (resize ? " resize" : " no-resize") + " form" + str(form) + " | off=" + str(off));
        try {
            if (form == 0) { if (!resize) v.resize(expect); if (r.chance(0.5)) df.readColumn((unsigned)j, v, resize, off); else df.readColumn(cols[j].name, v, resize, off); }
            else if (form == 1) { expect = 1 + r.u(nrows() - off); if (!resize) v.resize(expect + r.u(2)); if (r.chance(0.5)) df.readColumn(cols[j].name, v, expect, resize, off); else df.readColumn((unsigned)j, v, expect, resize, off); }
            else { off = 0; expect = nrows(); v.clear(); df.readColumn((unsigned)j, v, true); }
            bool ok = v.size() >= expect; std::string d;
            for (size_t i = 0; ok && i < expect; i++) { MV g = t == DataType::String ? MV() : ofT<T>(t, v[i]); if (g != tab[off + i][j]) { ok = false; d = "row " + str(off + i) + " got " + show(g) + " expected " + show(tab[off + i][j]); } }
            c.check(ok, K("readColumn/") + dtname(t), [&] { return "column " + str(j) + " off=" + str(off) + " n=" + str(expect) + ": " + (d.empty() ? "vector has " + str(v.size()) + " elements" : d) + " (" + when + ")"; });
            c.count("cells_compared", (long)expect);
        } catch (std::exception &e) { c.check(false, K("readColumn-exception"), std::string("readColumn threw: ") + e.what() + " (" + when + ")"); }
    }
    void check_column_S(size_t j, const char *when) {
        if (!nrows()) return; size_t off = r.u(nrows()); std::vector<std::string> v; size_t expect = nrows() - off;
        c.op("readColumn String resize | off=" + str(off));
        try { df.readColumn(cols[j].name, v, true, off); bool ok = v.size() == expect; std::string d; for (size_t i = 0; ok && i < expect; i++) if (ofS(v[i]) != tab[off + i][j]) { ok = false; d = "row " + str(off + i) + " got " + show(ofS(v[i])) + " expected " + show(tab[off + i][j]); }
            c.check(ok, K("readColumn/String"), [&] { return "column " + str(j) + ": " + (d.empty() ? "vector has " + str(v.size()) + " elements, expected " + str(expect) : d) + " (" + when + ")"; }); }
        catch (std::exception &e) { c.check(false, K("readColumn-exception"), std::string("readColumn threw: ") + e.what() + " (" + when + ")"); }
    }
    void check_column(size_t j, const char *when) {
        flip();
        switch (cols[j].dtype) { case DataType::Int32: check_column_T<int32_t>(j, when); break; case DataType::UInt32: check_column_T<uint32_t>(j, when); break; case DataType::Int64: check_column_T<int64_t>(j, when); break; case DataType::UInt64: check_column_T<uint64_t>(j, when); break; case DataType::Double: check_column_T<double>(j, when); break; case DataType::String: check_column_S(j, when); break; default: break; }
    }
    void check_schema(const char *when) {
        flip();
        try { std::vector<Column> cs = df.columns(); bool ok = cs.size() == cols.size(); for (size_t j = 0; ok && j < cs.size(); j++) ok = cs[j].name == cols[j].name && cs[j].unit == cols[j].unit && cs[j].dtype == cols[j].dtype && df.colIndex(cols[j].name) == j && df.colName((unsigned)j) == cols[j].name;
            c.check(ok, K("schema"), std::string("column schema changed (") + when + ")"); c.check(df.rows() == nrows(), K("rows"), [&] { return "rows() = " + str(df.rows()) + " model " + str(nrows()) + " (" + when + ")"; }); }
        catch (std::exception &e) { c.check(false, K("schema-exception"), e.what()); }
    }
    void check_all(const char *when) { check_schema(when); if (big) { for (int q = 0; q < 12 && nrows(); q++) check_row(q < 4 ? std::min(nrows() - 1, (size_t)(1022 + q)) : r.u(nrows()), when); for (size_t j = 0; j < cols.size(); j++) check_column(j, when); return; }
        for (size_t i = 0; i < nrows(); i++) check_row(i, when); for (size_t j = 0; j < cols.size(); j++) check_column(j, when); if (nrows()) check_cells(r.u(nrows()), when); }

    // ---- write paths
    template <typename T> void write_column_T(size_t j) {
        DataType t = cols[j].dtype; size_t off = r.u(nrows()); size_t n = 1 + r.u(nrows() - off); if (big && r.chance(0.7)) { off = r.u(20); n = nrows() - off - r.u(5); } size_t extra = r.u(3); bool explicit_count = r.chance(0.5);
        std::vector<T> v; std::vector<MV> ms; for (size_t i = 0; i < n + (explicit_count ? extra : 0); i++) { Variant x = gen(t); v.push_back(x.get<T>()); ms.push_back(of(x)); }
        c.op(std::string("writeColumn ") + dtname(t) + (explicit_count ? " explicit-count" : " whole-vector") + " | off=" + str(off) + " n=" + str(n));
        if (r.chance(0.5)) df.writeColumn((unsigned)j, v, off, explicit_count ? n : 0); else df.writeColumn(cols[j].name, v, off, explicit_count ? n : 0);
        for (size_t i = 0; i < n; i++) tab[off + i][j] = ms[i];
        check_column(j, "after writeColumn"); check_row(off, "after writeColumn"); check_row(off + n - 1, "after writeColumn"); if (off + n < nrows()) check_row(off + n, "row after the written column range");
    }
    void write_column(size_t j) {
        if (!nrows()) return;
        switch (cols[j].dtype) { case DataType::Int32: write_column_T<int32_t>(j); break; case DataType::UInt32: write_column_T<uint32_t>(j); break; case DataType::Int64: write_column_T<int64_t>(j); break; case DataType::UInt64: write_column_T<uint64_t>(j); break; case DataType::Double: write_column_T<double>(j); break;
        case DataType::String: { size_t off = r.u(nrows()); size_t n = 1 + r.u(nrows() - off); if (big && r.chance(0.7)) { off = r.u(20); n = nrows() - off - r.u(5); } std::vector<std::string> v; for (size_t i = 0; i < n; i++) v.push_back(gen(DataType::String).get<std::string>()); c.op("writeColumn String | off=" + str(off) + " n=" + str(n)); df.writeColumn(cols[j].name, v, off); for (size_t i = 0; i < n; i++) tab[off + i][j] = ofS(v[i]); check_column(j, "after writeColumn"); check_row(off, "after writeColumn"); break; }
        default: break; }
    }

    void op() {
        flip();
        int k = (int)r.weighted({3, nrows() ? 5 : 0, nrows() ? 5 : 0, nrows() ? 4 : 0, nrows() ? 4 : 0, 1});
        if (big) k = (int)r.weighted({1, 0, nrows() ? 1 : 0, 0, nrows() ? 6 : 0, 1});
        try {
            switch (k) {
            case 0: {   // row count: grow / shrink / regrow
                size_t n = r.chance(0.4) ? nrows() + 1 + r.u(4) : r.u(nrows() + 2); if (n > 40 && !big) n = 40; if (big) n = 1100 + r.u(1200);
                c.op(std::string("rows ") + (n > nrows() ? "grow" : n < nrows() ? "shrink" : "same") + " | " + str(nrows()) + "->" + str(n));
                df.rows(n); size_t old = nrows(); tab.resize(n); for (size_t i = old; i < n; i++) { tab[i].clear(); for (auto &cd : cols) tab[i].push_back(zero(cd.dtype)); }
                check_all("after rows()"); break; }
            case 1: { size_t row = r.u(nrows()); std::vector<Variant> v; for (auto &cd : cols) v.push_back(gen(cd.dtype)); c.op("writeRow | row=" + str(row)); df.writeRow(row, v); for (size_t j = 0; j < cols.size(); j++) tab[row][j] = of(v[j]); check_row(row, "after writeRow"); check_cells(row, "after writeRow"); check_column(r.u(cols.size()), "after writeRow"); if (row + 1 < nrows()) check_row(row + 1, "neighbour of written row"); break; }
            case 2: { size_t row = r.u(nrows()); size_t j = r.u(cols.size()); Variant v = gen(cols[j].dtype); bool byname = r.chance(0.5); c.op(std::string("writeCell ") + (byname ? "by-name " : "by-index ") + dtname(cols[j].dtype) + " | row=" + str(row) + " col=" + str(j)); if (byname) df.writeCells(row, {Cell(cols[j].name, v)}); else df.writeCell(row, (unsigned)j, v); tab[row][j] = of(v); check_row(row, "after writeCell"); check_cells(row, "after writeCell"); check_column(j, "after writeCell"); break; }
            case 3: { size_t row = r.u(nrows()); std::vector<Cell> cells; std::vector<size_t> idx; size_t n = 1 + r.u(cols.size()); for (size_t q = 0; q < n; q++) { size_t j = r.u(cols.size()); if (std::find(idx.begin(), idx.end(), j) != idx.end()) continue; idx.push_back(j); Variant v = gen(cols[j].dtype); if (r.chance(0.5)) cells.push_back(Cell(cols[j].name, v)); else cells.push_back(Cell((unsigned)j, v)); tab[row][j] = of(v); }
                c.op("writeCells | row=" + str(row) + " n=" + str(cells.size())); df.writeCells(row, cells); check_row(row, "after writeCells"); check_cells(row, "after writeCells"); break; }
            case 4: write_column(r.u(cols.size())); break;
            case 5: { c.op("close+reopen"); std::string n = df.name(); df = DataFrame(); df2 = DataFrame(); b = nix::none; f.close(); f = File::open(path, r.chance(0.5) ? FileMode::ReadWrite : FileMode::ReadOnly); b = f.getBlock("b"); df = b.getDataFrame(n); if (two) df2 = b.getDataFrame(n); check_all("after reopen"); if (f.fileMode() == FileMode::ReadOnly) { df = DataFrame(); df2 = DataFrame(); b = nix::none; f.close(); f = File::open(path, FileMode::ReadWrite); b = f.getBlock("b"); df = b.getDataFrame(n); if (two) df2 = b.getDataFrame(n); } break; }
            }
        } catch (std::exception &e) { c.check(false, K("legal-op-threw/op") + str(k), std::string("valid operation threw: ") + e.what()); }
        c.fp(str(k));
    }
    void run() {
        path = c.path("c15.nix"); f = File::open(path, FileMode::Overwrite, "hdf5", r.chance(0.5) ? Compression::Auto : Compression::None); b = f.createBlock("b", "t");
        size_t nc = 1 + r.u(8); static const char *units[] = {"", "mV", "s", "Hz"};
        // column names: plain, or (40% of the frames) drawn in random order from a pool of names that are prefixes / extensions / case variants of
        // each other, contain blanks, UTF-8, digits only, or are long - a column is identified by its exact name
        if (r.chance(0.4)) {
            std::vector<std::string> pool = {"time_ms", "time", "tim", "t", "time ", "Time", "time_ms_raw", "0", "1", "00", "value", "val", "value.x", "v", "\xc3\xa4", "\xc3\xa4\xc3\xa4", "a b", "a", "ab", std::string(200, 'n'), std::string(200, 'n') + "x", "name", "unit", "dtype"};
            for (size_t j = 0; j < nc; j++) { size_t q = r.u(pool.size()); cols.push_back({pool[q], r.pick(units), r.pick(TYPES)}); pool.erase(pool.begin() + (long)q); }
            c.count("prefix_name_schemas");
        } else
        for (size_t j = 0; j < nc; j++) cols.push_back({"col" + str(j) + (r.chance(0.2) ? " \xc3\xa4" : ""), r.pick(units), r.pick(TYPES)});
        big = c.index % 10 == 7; if (big) cols[0].dtype = DataType::String;
        c.op("createDataFrame | columns=" + str(nc)); for (auto &cd : cols) c.fp(dtname(cd.dtype));
        df = b.createDataFrame("frame", "t", cols, r.chance(0.5) ? Compression::Auto : Compression::DeflateNormal);
        if (big) { c.count("big_frames"); c.fp("big"); }   // more than 1024 rows: whole-column transfers cross any internal block size
        two = r.chance(0.6); if (two) df2 = b.getDataFrame("frame");
        check_schema("fresh");
        int n = big ? (int)r.range(5, 9) : (int)r.range(12, 35);
        for (int i = 0; i < n; i++) { op(); if (i % 5 == 4) check_all("periodic"); }
        check_all("final");
        c.nontrivial = c.checks > 20; df = DataFrame(); df2 = DataFrame(); b = nix::none; f.close();
    }
};
void run_case(Ctx &c) { H h(c); h.run(); }
long ncases(const std::string &tier) { return tier == "quick" ? 300 : 8000; }
std::vector<std::string> witnesses() { return {"d1-unwritten-string-cell"}; }
void run_witness(Ctx &c, const std::string &name) {
    H h(c); h.path = c.path("w.nix"); h.f = File::open(h.path, FileMode::Overwrite); h.b = h.f.createBlock("b", "t");
    if (name == "d1-unwritten-string-cell") { h.cols = {{"s", "", DataType::String}, {"d", "mV", DataType::Double}}; h.df = h.b.createDataFrame("frame", "t", h.cols); h.df.rows(3); h.tab.assign(3, {zero(DataType::String), zero(DataType::Double)}); Variant v("written"); h.df.writeCell(1, 0u, v); h.tab[1][0] = of(v); h.check_all("unwritten string cells"); }
    c.nontrivial = true; h.df = DataFrame(); h.b = nix::none; h.f.close();
}
Reg reg({"C15", ncases, run_case, witnesses, run_witness, 120});
}  // namespace
