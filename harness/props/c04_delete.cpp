// C04 - deleting an entity leaves no dangling reference and harms nothing else.
#include "core/core.hpp"
#include "core/graph.hpp"
#include "core/h5util.hpp"
using namespace vm;
using namespace nix;

namespace {

struct Victim { std::string kind, id, name; std::function<bool(int)> del; std::function<bool()> valid; std::vector<std::function<bool()>> desc_valid, desc_logged; std::vector<std::string> desc_ids; bool foreign = false; };

// collect the deletable entities of the file with closures that delete them by name / id / handle
void collect(Graph &g, std::vector<Victim> &out) {
    File F = g.f;
    for (auto &b : F.blocks()) {
        Block B = b;
        if (F.blockCount() > 1) { Victim v; v.kind = "block"; v.id = B.id(); v.name = B.name(); v.del = [F, B](int how) mutable { return how == 0 ? F.deleteBlock(B.name()) : how == 1 ? F.deleteBlock(B.id()) : F.deleteBlock(B); }; v.valid = [B] { return B.isValidEntity(); };
            for (auto &a : B.dataArrays()) { DataArray A = a; v.desc_logged.push_back([A] { return A.isValidEntity(); }); } out.push_back(v); }
        for (auto &a : B.dataArrays()) { DataArray A = a; Victim v; v.kind = "data_array"; v.id = A.id(); v.name = A.name(); v.del = [B, A](int how) mutable { return how == 0 ? B.deleteDataArray(A.name()) : how == 1 ? B.deleteDataArray(A.id()) : B.deleteDataArray(A); }; v.valid = [A] { return A.isValidEntity(); }; out.push_back(v); }
        for (auto &a : B.dataFrames()) { DataFrame A = a; Victim v; v.kind = "data_frame"; v.id = A.id(); v.name = A.name(); v.del = [B, A](int how) mutable { return how == 0 ? B.deleteDataFrame(A.name()) : how == 1 ? B.deleteDataFrame(A.id()) : B.deleteDataFrame(A); }; v.valid = [A] { return A.isValidEntity(); }; out.push_back(v); }
        for (auto &a : B.tags()) { Tag A = a; Victim v; v.kind = "tag"; v.id = A.id(); v.name = A.name(); v.del = [B, A](int how) mutable { return how == 0 ? B.deleteTag(A.name()) : how == 1 ? B.deleteTag(A.id()) : B.deleteTag(A); }; v.valid = [A] { return A.isValidEntity(); };
            for (auto &ft : A.features()) { Feature X = ft; v.desc_logged.push_back([X] { return X.isValidEntity(); }); } out.push_back(v); }
        for (auto &a : B.multiTags()) { MultiTag A = a; Victim v; v.kind = "multi_tag"; v.id = A.id(); v.name = A.name(); v.del = [B, A](int how) mutable { return how == 0 ? B.deleteMultiTag(A.name()) : how == 1 ? B.deleteMultiTag(A.id()) : B.deleteMultiTag(A); }; v.valid = [A] { return A.isValidEntity(); }; out.push_back(v); }
        for (auto &a : B.groups()) { Group A = a; Victim v; v.kind = "group"; v.id = A.id(); v.name = A.name(); v.del = [B, A](int how) mutable { return how == 0 ? B.deleteGroup(A.name()) : how == 1 ? B.deleteGroup(A.id()) : B.deleteGroup(A); }; v.valid = [A] { return A.isValidEntity(); }; out.push_back(v); }
        std::function<void(const Source &, const Source *)> src = [&](const Source &s, const Source *parent) {
            Source S = s; Victim v; v.kind = parent ? "nested_source" : "source"; v.id = S.id(); v.name = S.name();
            if (parent) { Source P = *parent; v.del = [P, S](int how) mutable { return how == 0 ? P.deleteSource(S.name()) : how == 1 ? P.deleteSource(S.id()) : P.deleteSource(S); }; }
            else v.del = [B, S](int how) mutable { return how == 0 ? B.deleteSource(S.name()) : how == 1 ? B.deleteSource(S.id()) : B.deleteSource(S); };
            v.valid = [S] { return S.isValidEntity(); };
            for (auto &ch : S.sources()) { Source C = ch; v.desc_valid.push_back([C] { return C.isValidEntity(); }); v.desc_ids.push_back(C.id()); for (auto &gc : C.sources()) { Source G = gc; v.desc_valid.push_back([G] { return G.isValidEntity(); }); v.desc_ids.push_back(G.id()); } }
            out.push_back(v);
            for (auto &ch : S.sources()) src(ch, &S);
        };
        for (auto &s : B.sources()) src(s, nullptr);
    }
    std::function<void(const Section &, const Section *)> sec = [&](const Section &s, const Section *parent) {
        Section S = s; Victim v; v.kind = parent ? "nested_section" : "section"; v.id = S.id(); v.name = S.name();
        if (parent) { Section P = *parent; v.del = [P, S](int how) mutable { return how == 0 ? P.deleteSection(S.name()) : how == 1 ? P.deleteSection(S.id()) : P.deleteSection(S); }; }
        else v.del = [F, S](int how) mutable { return how == 0 ? F.deleteSection(S.name()) : how == 1 ? F.deleteSection(S.id()) : F.deleteSection(S); };
        v.valid = [S] { return S.isValidEntity(); };
        for (auto &ch : S.sections()) { Section C = ch; v.desc_valid.push_back([C] { return C.isValidEntity(); }); v.desc_ids.push_back(C.id()); }
        for (auto &p : S.properties()) { Property P = p; v.desc_logged.push_back([P] { return P.isValidEntity(); }); }
        out.push_back(v);
        for (auto &p : S.properties()) { Property P = p; Victim w; w.kind = "property"; w.id = P.id(); w.name = P.name(); w.del = [S, P](int how) mutable { return how == 0 ? S.deleteProperty(P.name()) : how == 1 ? S.deleteProperty(P.id()) : S.deleteProperty(P); }; w.valid = [P] { return P.isValidEntity(); }; out.push_back(w); }
        for (auto &ch : S.sections()) sec(ch, &S);
    };
    for (auto &s : F.sections()) sec(s, nullptr);
}

// a handle of an entity of ANOTHER block that carries the same name as an entity of block b: deleting through it must not touch b's namesake
void foreign_handle_attempts(Ctx &c, Graph &g) {
    File F = g.f; if (F.blockCount() < 2) return;
    Block b0 = F.getBlock(0), b1 = F.getBlock(1);
    struct Try { std::string kind; std::function<bool()> attempt; };
    std::vector<Try> tries;
    for (auto &s : b1.sources()) if (b0.hasSource(s.name())) { Source S = s; tries.push_back({"source", [b0, S]() mutable { return b0.deleteSource(S); }}); }
    for (auto &a : b1.dataArrays()) if (b0.hasDataArray(a.name())) { DataArray A = a; tries.push_back({"data_array", [b0, A]() mutable { return b0.deleteDataArray(A); }}); }
    for (auto &a : b1.tags()) if (b0.hasTag(a.name())) { Tag A = a; tries.push_back({"tag", [b0, A]() mutable { return b0.deleteTag(A); }}); }
    for (auto &a : b1.groups()) if (b0.hasGroup(a.name())) { Group A = a; tries.push_back({"group", [b0, A]() mutable { return b0.deleteGroup(A); }}); }
    for (auto &a : b1.dataFrames()) if (b0.hasDataFrame(a.name())) { DataFrame A = a; tries.push_back({"data_frame", [b0, A]() mutable { return b0.deleteDataFrame(A); }}); }
    for (auto &t : tries) {
        Observer ob; ONode t0 = ob.file(F);
        c.op("delete " + t.kind + " by-foreign-handle");
        bool res = false, threw = false; try { res = t.attempt(); } catch (std::exception &) { threw = true; }
        Observer o2; ONode t1 = o2.file(F); std::string d = tree_diff(t0, t1);
        c.check(d.empty(), "C04/foreign-handle-deleted-namesake/" + t.kind, [&] { return "deleting through the handle of a namesake " + t.kind + " of another block (returned " + str(res) + (threw ? ", threw" : "") + ") changed the file:\n" + d; });
        c.count("foreign_handle_attempts");
    }
}

void run_case(Ctx &c) {
    Rng &r = c.rng; Graph g(c); g.hostile_pct = 25; g.create(c.path("c04.nix"));
    // dense link graph: creation and linking dominate; two blocks with colliding names
    g.grow(6, {10, 0, 0, 0, 0});
    { c.op("seed-colliding-names"); try { while (g.f.blockCount() < 2) g.f.createBlock(g.name(), "t"); Block b0 = g.f.getBlock(0), b1 = g.f.getBlock(1);
        for (const char *nm : {"same", "same2"}) { if (!b0.hasSource(nm)) b0.createSource(nm, "t"); if (!b1.hasSource(nm)) b1.createSource(nm, "t"); if (!b0.hasDataArray(nm)) b0.createDataArray(nm, "t", DataType::Double, NDSize{2}); if (!b1.hasDataArray(nm)) b1.createDataArray(nm, "t", DataType::Double, NDSize{2}); if (!b0.hasTag(nm)) b0.createTag(nm, "t", {1.0}); if (!b1.hasTag(nm)) b1.createTag(nm, "t", {1.0}); if (!b0.hasGroup(nm)) b0.createGroup(nm, "t"); if (!b1.hasGroup(nm)) b1.createGroup(nm, "t"); } } catch (std::exception &e) { c.note(std::string("seed-collide:") + e.what()); } }
    // source and section trees with several children per level, nested members attached to / used as metadata by other entities
    { c.op("seed-trees"); try { Block b0 = g.f.getBlock(0);
        for (int t = 0; t < 2; t++) { Source root = b0.createSource("tree" + str(t), "t"); int nc = (int)r.range(2, 4); for (int i = 0; i < nc; i++) { Source ch = root.createSource("c" + str(i), "t"); int ng = (int)r.u(3); for (int j = 0; j < ng; j++) ch.createSource("g" + str(j), "t"); } }
        for (int t = 0; t < 2; t++) { Section root = g.f.createSection("stree" + str(t), "t"); int nc = (int)r.range(2, 4); for (int i = 0; i < nc; i++) { Section ch = root.createSection("c" + str(i), "t"); if (r.chance(0.5)) ch.createProperty("p", Variant(1.0)); int ng = (int)r.u(3); for (int j = 0; j < ng; j++) ch.createSection("g" + str(j), "t"); } }
      } catch (std::exception &e) { c.note(std::string("seed-trees:") + e.what()); } }
    g.grow((int)r.range(25, 45), {8, 1, 12, 1, 0});
    // attach nested tree members to random holders
    { c.op("attach-tree-members"); try { Block b0 = g.f.getBlock(0);
        for (int k = 0; k < 8; k++) { Source s; if (!g.anySource(b0, s)) break; while (r.chance(0.6) && s.sourceCount()) s = s.getSource(r.u(s.sourceCount())); DataArray a; Tag t; MultiTag m; Group gr; int w = (int)r.u(4);
            if (w == 0 && g.anyArray(b0, a)) a.addSource(s); else if (w == 1 && g.anyTag(b0, t)) t.addSource(s); else if (w == 2 && g.anyMTag(b0, m)) m.addSource(s); else if (w == 3 && g.anyGroup(b0, gr)) gr.addSource(s); }
        for (int k = 0; k < 8; k++) { Section s; if (!g.anySection(s)) break; while (r.chance(0.6) && s.sectionCount()) s = s.getSection(r.u(s.sectionCount())); DataArray a; Tag t; Source so; int w = (int)r.u(4);
            if (w == 0 && g.anyArray(b0, a)) a.metadata(s); else if (w == 1 && g.anyTag(b0, t)) t.metadata(s); else if (w == 2 && g.anySource(b0, so)) so.metadata(s); else if (w == 3) { Section o; if (g.anySection(o) && o.id() != s.id()) o.link(s); } }
      } catch (std::exception &e) { c.note(std::string("attach:") + e.what()); } }
    if (r.chance(0.5)) { c.op("close+reopen"); g.close(); g.open(FileMode::ReadWrite); g.grow((int)r.range(8, 20), {4, 1, 12, 1, 0}); }   // links made before and after a reopen
    int ndel = (int)r.range(2, 5);
    for (int k = 0; k < ndel; k++) {
        std::vector<Victim> vs; collect(g, vs); if (vs.empty()) break;
        // prefer heavily linked targets half of the time
        Observer ob; ONode t0 = ob.file(g.f);
        Victim v = vs[r.u(vs.size())];
        int pickmode = (int)r.u(3);
        if (pickmode == 2) {   // the candidate with the largest subtree that something points into
            size_t best = 0; std::vector<std::string> lines = flatten(t0);
            for (int tries = 0; tries < 8; tries++) { Victim &cand = vs[r.u(vs.size())]; const ONode *cn = find_node(t0, cand.id); if (!cn) continue; std::vector<std::string> ids; collect_ids(*cn, ids); size_t m = 0; for (auto &l : lines) if (l.find("->") != std::string::npos) for (size_t q = 1; q < ids.size(); q++) if (l.find(ids[q]) != std::string::npos) { m++; break; } m = m * 10 + ids.size(); if (m > best) { best = m; v = cand; } }
        } else if (pickmode == 1) { std::vector<std::string> lines = flatten(t0); size_t best = 0; for (int tries = 0; tries < 6; tries++) { Victim &cand = vs[r.u(vs.size())]; size_t m = 0; for (auto &l : lines) if (l.find("->") != std::string::npos && l.find(cand.id) != std::string::npos) m++; if (m > best) { best = m; v = cand; } } }
        const ONode *node = find_node(t0, v.id);
        if (!node) { c.note("victim-not-in-snapshot:" + v.kind); continue; }
        std::vector<std::string> dead_v; collect_ids(*node, dead_v); std::set<std::string> dead(dead_v.begin(), dead_v.end());
        size_t inlinks = 0; for (auto &l : flatten(t0)) if (l.find("->") != std::string::npos) for (auto &d : dead) if (l.find(d) != std::string::npos) { inlinks++; break; }
        // the monitor's own HDF5 handles on the victim and its judged descendants, taken before the delete: afterwards they tell how many
        // hard links HDF5 itself still counts for each object, independent of what nix reports
        std::map<std::string, hid_t> pre; pre[v.id] = entity_open(v.id); for (auto &did : v.desc_ids) if (!pre.count(did)) pre[did] = entity_open(did);
        // handles of the victim (and of its judged descendants) obtained along OTHER routes than the container it is deleted from: through a
        // holder's link to it or to one of its ancestors (entity.sources() / metadata() / section link, then down the tree), tag references,
        // positions / extents, feature data, group members. They are the same entities and must turn invalid just the same.
        std::vector<std::pair<std::string, std::function<bool()>>> routes; std::vector<std::string> route_names;
        { std::set<std::string> targets(v.desc_ids.begin(), v.desc_ids.end()); targets.insert(v.id);
          auto hit = [&](const std::string &id, std::function<bool()> fn, const char *route) { if (targets.count(id) && routes.size() < 60) { routes.emplace_back(id, fn); route_names.push_back(route); } };
          std::function<void(const Source &, int, const char *)> wsrc = [&](const Source &s0, int depth, const char *route) { Source S = s0; hit(S.id(), [S] { return S.isValidEntity(); }, route); if (depth < 5) for (auto &ch : S.sources()) wsrc(ch, depth + 1, route); };
          std::function<void(const Section &, int, const char *)> wsec = [&](const Section &s0, int depth, const char *route) { Section S = s0; hit(S.id(), [S] { return S.isValidEntity(); }, route); if (depth < 5) for (auto &ch : S.sections()) wsec(ch, depth + 1, route); };
          try {
            for (auto &B : g.f.blocks()) {
                try { Section m = B.metadata(); if (m) wsec(m, 0, "block.metadata"); } catch (std::exception &) {}
                for (auto &A : B.dataArrays()) { try { for (auto &so : A.sources()) wsrc(so, 0, "array.sources"); Section m = A.metadata(); if (m) wsec(m, 0, "array.metadata"); } catch (std::exception &) {} }
                for (auto &T : B.tags()) { try { for (auto &so : T.sources()) wsrc(so, 0, "tag.sources"); Section m = T.metadata(); if (m) wsec(m, 0, "tag.metadata");
                        for (auto &ra : T.references()) { DataArray R = ra; hit(R.id(), [R] { return R.isValidEntity(); }, "tag.references"); }
                        for (auto &ft : T.features()) { try { DataArray R = ft.data(); if (R) hit(R.id(), [R] { return R.isValidEntity(); }, "feature.data"); } catch (std::exception &) {} } } catch (std::exception &) {} }
                for (auto &T : B.multiTags()) { try { for (auto &so : T.sources()) wsrc(so, 0, "multi_tag.sources");
                        for (auto &ra : T.references()) { DataArray R = ra; hit(R.id(), [R] { return R.isValidEntity(); }, "multi_tag.references"); }
                        try { DataArray P = T.positions(); if (P) hit(P.id(), [P] { return P.isValidEntity(); }, "multi_tag.positions"); } catch (std::exception &) {}
                        try { DataArray E = T.extents(); if (E) hit(E.id(), [E] { return E.isValidEntity(); }, "multi_tag.extents"); } catch (std::exception &) {} } catch (std::exception &) {} }
                for (auto &G : B.groups()) { try { for (auto &x : G.dataArrays()) { DataArray R = x; hit(R.id(), [R] { return R.isValidEntity(); }, "group.dataArrays"); } for (auto &x : G.tags()) { Tag R = x; hit(R.id(), [R] { return R.isValidEntity(); }, "group.tags"); }
                        for (auto &x : G.multiTags()) { MultiTag R = x; hit(R.id(), [R] { return R.isValidEntity(); }, "group.multiTags"); } for (auto &x : G.dataFrames()) { DataFrame R = x; hit(R.id(), [R] { return R.isValidEntity(); }, "group.dataFrames"); } } catch (std::exception &) {} }
                for (auto &S0 : B.sources()) { try { Section m = S0.metadata(); if (m) wsec(m, 0, "source.metadata"); } catch (std::exception &) {} }
            }
            std::function<void(const Section &, int)> links = [&](const Section &s0, int depth) { try { Section l = s0.link(); if (l) wsec(l, 0, "section.link"); } catch (std::exception &) {} if (depth < 5) for (auto &ch : s0.sections()) links(ch, depth + 1); };
            for (auto &S0 : g.f.sections()) links(S0, 0);
          } catch (std::exception &) {}
          c.count("other_route_handles", (long)routes.size()); }
        int how = (int)r.u(3);
        c.op("delete " + v.kind + " by-" + (how == 0 ? "name" : how == 1 ? "id" : "handle") + " | '" + v.name.substr(0, 30) + "' subtree=" + str(dead.size()) + " inlinks=" + str(inlinks));
        bool res = false; try { res = v.del(how); } catch (std::exception &e) { c.check(false, "C04/delete-threw/" + v.kind, std::string("delete threw: ") + e.what()); for (auto &kv : pre) if (kv.second >= 0) H5Oclose(kv.second); continue; }
        c.check(res, "C04/delete-returned-false/" + v.kind + "/by-" + (how == 0 ? "name" : how == 1 ? "id" : "handle"), [&] { return "delete of live " + v.kind + " '" + v.name.substr(0, 40) + "' returned false"; });
        Observer o2; ONode t1 = o2.file(g.f);
        ONode expect = t0; remove_ids(expect, dead);
        std::string d = tree_diff(expect, t1);
        c.check(d.empty(), "C04/after-delete/" + v.kind, [&] { return "after deleting " + v.kind + " '" + v.name.substr(0, 40) + "' (id " + v.id + ", subtree of " + str(dead.size()) + " entities, " + str(inlinks) + " link lines pointing into it) the file differs from 'everything else untouched, every link to it gone' (before = expected, after = observed):\n" + d; });
        // handles of the deleted entity and of its descendants report themselves invalid
        // Known finding D20: objects that were unlinked earlier (a deleted tag's feature group, a deleted block's arrays, a deleted
        // sub-section with a link to its parent ...) keep their outgoing HDF5 links, so the link count of a deleted entity can stay > 0
        // although nothing reachable from the root refers to it. The monitor separates the two situations by walking the file.
        // A handle that stays valid although HDF5 counts no link at all is a different failure (validity not tied to the link count).
        auto classify = [&](const std::string &id) { if (entity_reachable(id)) return std::string("still-reachable"); long rc = pre.count(id) ? h5_link_count(pre[id]) : -1; return rc > 0 ? std::string("unreachable-but-link-count-positive") : rc == 0 ? std::string("unreachable-and-link-count-zero") : std::string("unreachable-link-count-unknown"); };
        bool val = true; try { val = v.valid(); } catch (std::exception &) { val = false; }
        if (val) { std::string cls = classify(v.id); c.check(false, "C04/stale-handle-valid/" + cls + (cls == "still-reachable" ? "/" + v.kind : ""), "handle of deleted " + v.kind + " '" + v.name.substr(0, 40) + "' still reports isValidEntity(); an object with its id is " + (cls == "still-reachable" ? "still reachable from the root group" : "not reachable from the root group (only objects unlinked earlier still link to it)")); } else c.check(true, "", "");
        { size_t di = 0; for (auto &dv : v.desc_valid) { bool x = true; try { x = dv(); } catch (std::exception &) { x = false; } std::string did = di < v.desc_ids.size() ? v.desc_ids[di] : ""; di++;
            if (x) { std::string cls = did.empty() ? "still-reachable" : classify(did); c.check(false, "C04/stale-handle-valid/" + cls + (cls == "still-reachable" ? "/descendant-of-" + v.kind : ""), "handle of a sub-section / sub-source of deleted " + v.kind + " still reports isValidEntity()"); } else c.check(true, "", ""); } }
        for (size_t ri = 0; ri < routes.size(); ri++) { bool x = true; try { x = routes[ri].second(); } catch (std::exception &) { x = false; }
            if (x) { std::string cls = classify(routes[ri].first); c.check(false, "C04/stale-handle-valid/" + cls + (cls == "unreachable-but-link-count-positive" ? std::string() : "/other-route/" + route_names[ri]), "a handle of the deleted " + v.kind + " (or of a sub-source / sub-section of it) that was obtained through " + route_names[ri] + " before the delete still reports isValidEntity()"); }
            else c.check(true, "", ""); }
        for (auto &dv : v.desc_logged) { bool x = true; try { x = dv(); } catch (std::exception &) { x = false; } if (x) c.count("observation:content-handle-of-deleted-parent-still-valid"); }
        for (auto &kv : pre) if (kv.second >= 0) H5Oclose(kv.second);
        c.count("deletions"); c.count("deleted_entities", (long)dead.size()); c.count("inlinks_removed", (long)inlinks); c.count("victim:" + v.kind);
        c.fp(v.kind + str(how) + (inlinks ? "L" : ""));
        if (r.chance(0.3)) { c.op("close+reopen"); g.close(); g.open(FileMode::ReadWrite); Observer o3; ONode t2 = o3.file(g.f); std::string d2 = tree_diff(t1, t2); c.check(d2.empty(), "C04/after-delete-reopen", d2); }
    }
    foreign_handle_attempts(c, g);
    c.nontrivial = c.counters["deletions"] > 0;
    g.close();
}
long ncases(const std::string &tier) { return tier == "quick" ? 300 : 6000; }
std::vector<std::string> witnesses() { return {"d17-delete-source-foreign-handle", "d20-orphan-link-keeps-handle-valid"}; }
void run_witness(Ctx &c, const std::string &name) {
    Graph g(c); g.create(c.path("w.nix"));
    if (name == "d17-delete-source-foreign-handle") {
        Block b0 = g.f.createBlock("b0", "t"), b1 = g.f.createBlock("b1", "t"); b0.createSource("src", "t").createSource("child", "t"); b1.createSource("src", "t");
        foreign_handle_attempts(c, g);
    }
    else if (name == "d20-orphan-link-keeps-handle-valid") {
        // tag T has a feature whose data is array A; delete T (its feature group is orphaned, still linking A), then delete A
        Block b = g.f.createBlock("b", "t"); DataArray a = b.createDataArray("A", "t", DataType::Double, NDSize{2}); Tag t = b.createTag("T", "t", {1.0}); t.createFeature(a, LinkType::Untagged);
        hid_t pre_a = entity_open(a.id());
        c.op("delete tag by-name"); b.deleteTag("T");
        c.op("delete data_array by-name"); bool res = b.deleteDataArray("A");
        c.check(res && !b.hasDataArray("A"), "C04/delete-returned-false/data_array/by-name", "array not deleted");
        std::string aid = a.id();
        if (a.isValidEntity()) c.check(false, std::string("C04/stale-handle-valid/") + (entity_reachable(aid) ? "still-reachable/data_array" : h5_link_count(pre_a) > 0 ? "unreachable-but-link-count-positive" : "unreachable-and-link-count-zero"), "handle of deleted data_array 'A' still reports isValidEntity() (it was feature data of a tag deleted earlier)");
        if (pre_a >= 0) H5Oclose(pre_a);
    }
    c.nontrivial = true; g.close();
}
Reg reg({"C04", ncases, run_case, witnesses, run_witness, 120});
}  // namespace
