// C20 - tree searches and back-reference queries equal a brute-force traversal.
#include "core/core.hpp"
#include "core/graph.hpp"
#include <boost/regex.hpp>
using namespace vm;
using namespace nix;

namespace {
struct TN { std::string id, name, type; std::vector<size_t> kids; long parent = -1; bool alive = true; };   // tree node of the model
struct Ent { std::string kind, id, name; size_t block; std::string meta; std::vector<std::string> sources; bool alive = true; };   // entity that can carry metadata / sources

struct W {
    Ctx &c; Rng &r; File f; std::vector<TN> sec; std::vector<size_t> sec_roots;            // section forest
    std::vector<std::vector<TN>> src; std::vector<std::vector<size_t>> src_roots;           // one source forest per block
    std::vector<Block> blocks; std::vector<Ent> ents; std::map<std::string, std::string> link;   // section id -> linked section id
    std::map<std::string, std::vector<std::string>> props;                                   // section id -> property names (in order)
    W(Ctx &cx) : c(cx), r(cx.rng) {}
    static const char *pick_name(Rng &r) { static const char *n[] = {"a", "b", "c", "a", "node", "..", "x y", "\xc3\xa4", "01234567-89ab-cdef-0123-456789abcdef"}; return r.pick(n); }
    static const char *pick_type(Rng &r) { static const char *t[] = {"t", "t", "nix.a", "nix.b", "other.type"}; return r.pick(t); }

    Section sec_handle(size_t i) { std::vector<size_t> path; for (long k = (long)i; k >= 0; k = sec[(size_t)k].parent) path.push_back((size_t)k); Section s = f.getSection(sec[path.back()].id); for (size_t q = path.size() - 1; q-- > 0;) s = s.getSection(sec[path[q]].id); return s; }
    Source src_handle(size_t b, size_t i) { std::vector<size_t> path; for (long k = (long)i; k >= 0; k = src[b][(size_t)k].parent) path.push_back((size_t)k); Source s = blocks[b].getSource(src[b][path.back()].id); for (size_t q = path.size() - 1; q-- > 0;) s = s.getSource(src[b][path[q]].id); return s; }

    void grow_sections(int depth_max, int branch_max) {
        std::function<void(long, int)> rec = [&](long parent, int depth) {
            int nk = depth == 0 ? 1 + (int)r.u(3) : (int)r.u(branch_max + 1); if (depth >= depth_max) nk = 0;
            std::set<std::string> used;
            for (int k = 0; k < nk; k++) { std::string nm = pick_name(r); while (used.count(nm)) nm += str(k); used.insert(nm); std::string ty = pick_type(r);
                Section s = parent < 0 ? f.createSection(nm, ty) : sec_handle((size_t)parent).createSection(nm, ty);
                TN n; n.id = s.id(); n.name = nm; n.type = ty; n.parent = parent; sec.push_back(n); size_t me = sec.size() - 1; if (parent < 0) sec_roots.push_back(me); else sec[(size_t)parent].kids.push_back(me);
                int np = (int)r.u(4); for (int q = 0; q < np; q++) { std::string pn = std::string("p") + str(r.u(4)); if (s.hasProperty(pn)) continue; s.createProperty(pn, Variant((double)q)); props[n.id].push_back(pn); }
                if (r.chance(0.7)) rec((long)me, depth + 1); }
        };
        rec(-1, 0);
    }
    void grow_sources(size_t b, int depth_max, int branch_max) {
        std::function<void(long, int)> rec = [&](long parent, int depth) {
            int nk = depth == 0 ? 1 + (int)r.u(3) : (int)r.u(branch_max + 1); if (depth >= depth_max) nk = 0;
            std::set<std::string> used;
            for (int k = 0; k < nk; k++) { std::string nm = pick_name(r); while (used.count(nm)) nm += str(k); used.insert(nm); std::string ty = pick_type(r);
                Source s = parent < 0 ? blocks[b].createSource(nm, ty) : src_handle(b, (size_t)parent).createSource(nm, ty);
                TN n; n.id = s.id(); n.name = nm; n.type = ty; n.parent = parent; src[b].push_back(n); size_t me = src[b].size() - 1; if (parent < 0) src_roots[b].push_back(me); else src[b][(size_t)parent].kids.push_back(me);
                if (r.chance(0.7)) rec((long)me, depth + 1); }
        };
        rec(-1, 0);
    }
    // brute-force: nodes within depth of a start set, breadth-first. start_depth = depth at which the start nodes count.
    std::vector<size_t> bfs(const std::vector<TN> &T, const std::vector<size_t> &start, size_t start_depth, size_t max_depth) {
        std::vector<size_t> out; std::vector<std::pair<size_t, size_t>> q; for (size_t s : start) q.emplace_back(s, start_depth);
        for (size_t h = 0; h < q.size(); h++) { size_t n = q[h].first, d = q[h].second; if (d > max_depth) continue; out.push_back(n); if (d < max_depth) for (size_t k : T[n].kids) q.emplace_back(k, d + 1); }
        return out;
    }
    struct Flt { std::string name; util::Filter<Section>::type sf; util::Filter<Source>::type of; std::function<bool(const TN &)> model; };
    Flt gen_filter(const std::vector<TN> &T) {
        Flt F; int k = (int)r.u(6); std::vector<const TN *> live; for (auto &n : T) if (n.alive) live.push_back(&n);
        if (k == 0 || live.empty()) { F.name = "accept-all"; F.sf = util::AcceptAll<Section>(); F.of = util::AcceptAll<Source>(); F.model = [](const TN &) { return true; }; }
        else if (k == 1) { std::string id = r.chance(0.9) ? r.pick(live)->id : uuid_like(r); F.name = "id"; F.sf = util::IdFilter<Section>(id); F.of = util::IdFilter<Source>(id); F.model = [id](const TN &n) { return n.id == id; }; }
        else if (k == 2) { std::vector<std::string> ids; size_t m = 1 + r.u(4); for (size_t i = 0; i < m; i++) ids.push_back(r.pick(live)->id); F.name = "ids"; F.sf = util::IdsFilter<Section>(ids); F.of = util::IdsFilter<Source>(ids); F.model = [ids](const TN &n) { return std::find(ids.begin(), ids.end(), n.id) != ids.end(); }; }
        else if (k == 3) { std::string nm = r.pick(live)->name; F.name = "name"; F.sf = util::NameFilter<Section>(nm); F.of = util::NameFilter<Source>(nm); F.model = [nm](const TN &n) { return n.name == nm; }; }
        else if (k == 4) { std::string ty = r.pick(live)->type; F.name = "type-exact"; F.sf = util::TypeFilter<Section>(ty); F.of = util::TypeFilter<Source>(ty); F.model = [ty](const TN &n) { return n.type == ty; }; }
        else { F.name = "type-substring"; F.sf = util::TypeFilter<Section>("nix", false); F.of = util::TypeFilter<Source>("nix", false); F.model = [](const TN &n) { return n.type.find("nix") != std::string::npos; }; }
        return F;
    }
    template <typename E> std::vector<std::string> ids_of(const std::vector<E> &v) { std::vector<std::string> o; for (auto &e : v) o.push_back(e.id()); return o; }
    std::string show(const std::vector<std::string> &v) { std::string s; for (size_t i = 0; i < v.size() && i < 10; i++) s += v[i].substr(0, 6) + ","; return "[" + s + (v.size() > 10 ? "..." : "") + "](" + str(v.size()) + ")"; }
    void expect(const std::vector<std::string> &got, std::vector<std::string> want, bool ordered, const std::string &key, const std::string &what) {
        std::vector<std::string> g = got; bool dup = false; { std::vector<std::string> s = g; std::sort(s.begin(), s.end()); dup = std::adjacent_find(s.begin(), s.end()) != s.end(); }
        c.check(!dup, key + "/duplicate", [&] { return what + ": an entity is returned twice " + show(got); });
        if (!ordered) { std::sort(g.begin(), g.end()); std::sort(want.begin(), want.end()); }
        c.check(g == want, key + (ordered ? "/order-or-set" : "/set"), [&] { return what + ": library " + show(got) + " brute force " + show(want); });
    }

    void query_sections() {
        Flt F = gen_filter(sec); size_t tree_depth = 6; size_t depth = r.chance(0.25) ? std::numeric_limits<size_t>::max() : r.u(tree_depth + 2); std::string dn = depth > 100 ? "unlimited" : "limited";
        std::vector<size_t> live; for (size_t i = 0; i < sec.size(); i++) if (sec[i].alive) live.push_back(i);
        if (!live.empty() && r.chance(0.7)) {   // single start: children count as depth 1, the start itself is excluded; breadth-first order
            size_t s0 = r.pick(live); std::vector<size_t> nodes = bfs(sec, sec[s0].kids, 1, depth); std::vector<std::string> want; for (size_t n : nodes) if (F.model(sec[n])) want.push_back(sec[n].id);
            c.op("Section::findSections " + F.name + " " + dn + " | depth=" + (depth > 100 ? std::string("max") : str(depth)));
            std::vector<Section> got = depth > 100 && r.chance(0.5) ? sec_handle(s0).findSections(F.sf) : sec_handle(s0).findSections(F.sf, depth);
            expect(ids_of(got), want, true, "C20/section-findSections/" + F.name, "findSections(depth " + (depth > 100 ? std::string("max") : str(depth)) + ") from section " + sec[s0].name);
        } else {   // file level: roots count as depth 1
            std::vector<std::string> want; if (depth > 0) for (size_t n : bfs(sec, sec_roots, 1, depth)) if (F.model(sec[n])) want.push_back(sec[n].id);
            c.op("File::findSections " + F.name + " " + dn + " | depth=" + (depth > 100 ? std::string("max") : str(depth)));
            std::vector<Section> got = depth > 100 && r.chance(0.5) ? f.findSections(F.sf) : f.findSections(F.sf, depth);
            expect(ids_of(got), want, false, "C20/file-findSections/" + F.name, "File::findSections(depth " + (depth > 100 ? std::string("max") : str(depth)) + ")");
        }
    }
    void query_sources() {
        size_t b = r.u(blocks.size()); Flt F = gen_filter(src[b]); size_t depth = r.chance(0.25) ? std::numeric_limits<size_t>::max() : r.u(7); std::string dn = depth > 100 ? "unlimited" : "limited";
        std::vector<size_t> live; for (size_t i = 0; i < src[b].size(); i++) if (src[b][i].alive) live.push_back(i);
        if (!live.empty() && r.chance(0.7)) {   // single start: the start itself is depth 0 and included
            size_t s0 = r.pick(live); std::vector<std::string> want; for (size_t n : bfs(src[b], {s0}, 0, depth)) if (F.model(src[b][n])) want.push_back(src[b][n].id);
            c.op("Source::findSources " + F.name + " " + dn + " | depth=" + (depth > 100 ? std::string("max") : str(depth)));
            std::vector<Source> got = depth > 100 && r.chance(0.5) ? src_handle(b, s0).findSources(F.of) : src_handle(b, s0).findSources(F.of, depth);
            expect(ids_of(got), want, true, "C20/source-findSources/" + F.name, "findSources(depth " + (depth > 100 ? std::string("max") : str(depth)) + ") from source " + src[b][s0].name);
        } else {
            std::vector<std::string> want; for (size_t n : bfs(src[b], src_roots[b], 0, depth)) if (F.model(src[b][n])) want.push_back(src[b][n].id);
            c.op("Block::findSources " + F.name + " " + dn + " | depth=" + (depth > 100 ? std::string("max") : str(depth)));
            std::vector<Source> got = depth > 100 && r.chance(0.5) ? blocks[b].findSources(F.of) : blocks[b].findSources(F.of, depth);
            expect(ids_of(got), want, false, "C20/block-findSources/" + F.name, "Block::findSources(depth " + (depth > 100 ? std::string("max") : str(depth)) + ")");
        }
    }
    void query_backrefs() {
        // sections: who uses me as metadata
        std::vector<size_t> live; for (size_t i = 0; i < sec.size(); i++) if (sec[i].alive) live.push_back(i);
        if (!live.empty()) { size_t s0 = r.pick(live); Section s = sec_handle(s0); const std::string &sid = sec[s0].id;
            auto want = [&](const std::string &kind, long block) { std::vector<std::string> w; for (auto &e : ents) if (e.alive && e.kind == kind && e.meta == sid && (block < 0 || (long)e.block == block)) w.push_back(e.id); return w; };
            c.op("Section::referring*");
            expect(ids_of(s.referringDataArrays()), want("data_array", -1), false, "C20/section-referringDataArrays", "referringDataArrays of " + sec[s0].name);
            expect(ids_of(s.referringTags()), want("tag", -1), false, "C20/section-referringTags", "referringTags");
            expect(ids_of(s.referringMultiTags()), want("multi_tag", -1), false, "C20/section-referringMultiTags", "referringMultiTags");
            expect(ids_of(s.referringSources()), want("source", -1), false, "C20/section-referringSources", "referringSources");
            expect(ids_of(s.referringBlocks()), want("block", -1), false, "C20/section-referringBlocks", "referringBlocks");
            size_t b = r.u(blocks.size()); expect(ids_of(s.referringDataArrays(blocks[b])), want("data_array", (long)b), false, "C20/section-referringDataArrays-block", "referringDataArrays(block)"); expect(ids_of(s.referringTags(blocks[b])), want("tag", (long)b), false, "C20/section-referringTags-block", "referringTags(block)");
            // inherited properties = own + linked not shadowed by name
            std::vector<std::string> wantp = props[sid]; auto it = link.find(sid); if (it != link.end()) for (auto &pn : props[it->second]) if (std::find(props[sid].begin(), props[sid].end(), pn) == props[sid].end()) wantp.push_back(pn);
            std::vector<std::string> gotp; for (auto &p : s.inheritedProperties()) gotp.push_back(p.name());
            c.check(gotp == wantp, "C20/inheritedProperties", [&] { std::string a, b2; for (auto &x : gotp) a += x + ","; for (auto &x : wantp) b2 += x + ","; return "inheritedProperties of " + sec[s0].name + ": library [" + a + "] expected own + unshadowed linked [" + b2 + "]"; });
        }
        // sources: who is attached to me, and my parent
        size_t b = r.u(blocks.size()); std::vector<size_t> ls; for (size_t i = 0; i < src[b].size(); i++) if (src[b][i].alive) ls.push_back(i);
        if (!ls.empty()) { size_t s0 = r.pick(ls); Source s = src_handle(b, s0); const std::string &sid = src[b][s0].id;
            auto want = [&](const std::string &kind) { std::vector<std::string> w; for (auto &e : ents) if (e.alive && e.kind == kind && std::find(e.sources.begin(), e.sources.end(), sid) != e.sources.end()) w.push_back(e.id); return w; };
            c.op("Source::referring*/parentSource");
            expect(ids_of(s.referringDataArrays()), want("data_array"), false, "C20/source-referringDataArrays", "Source::referringDataArrays of " + src[b][s0].name);
            expect(ids_of(s.referringTags()), want("tag"), false, "C20/source-referringTags", "Source::referringTags"); expect(ids_of(s.referringMultiTags()), want("multi_tag"), false, "C20/source-referringMultiTags", "Source::referringMultiTags");
            Source p = s.parentSource(); std::string wantpar = src[b][s0].parent < 0 ? "" : src[b][(size_t)src[b][s0].parent].id;
            c.check((p ? p.id() : std::string()) == wantpar, "C20/parentSource", [&] { return "parentSource of " + src[b][s0].name + " (" + sid.substr(0, 6) + "): library " + (p ? p.id().substr(0, 6) + " '" + p.name() + "'" : std::string("none")) + " expected " + (wantpar.empty() ? std::string("none") : wantpar.substr(0, 6)); });
        }
    }
    void kill_subtree(std::vector<TN> &T, size_t i, std::set<std::string> &dead) { T[i].alive = false; dead.insert(T[i].id); for (size_t k : T[i].kids) kill_subtree(T, k, dead); }
    void random_delete() {
        int k = (int)r.u(3); std::set<std::string> dead;
        if (k == 0) { std::vector<size_t> live; for (size_t i = 0; i < sec.size(); i++) if (sec[i].alive) live.push_back(i); if (live.size() < 2) return; size_t s0 = r.pick(live); c.op("delete section subtree");
            Section s = sec_handle(s0); long par = sec[s0].parent; if (par < 0) f.deleteSection(s); else sec_handle((size_t)par).deleteSection(s);
            kill_subtree(sec, s0, dead); if (par < 0) sec_roots.erase(std::find(sec_roots.begin(), sec_roots.end(), s0)); else { auto &kv = sec[(size_t)par].kids; kv.erase(std::find(kv.begin(), kv.end(), s0)); }
            for (auto &e : ents) if (dead.count(e.meta)) e.meta.clear(); for (auto it = link.begin(); it != link.end();) if (dead.count(it->first) || dead.count(it->second)) it = link.erase(it); else ++it; }
        else if (k == 1) { size_t b = r.u(blocks.size()); std::vector<size_t> live; for (size_t i = 0; i < src[b].size(); i++) if (src[b][i].alive) live.push_back(i); if (live.size() < 2) return; size_t s0 = r.pick(live); c.op("delete source subtree");
            Source s = src_handle(b, s0); long par = src[b][s0].parent; if (par < 0) blocks[b].deleteSource(s); else src_handle(b, (size_t)par).deleteSource(s);
            kill_subtree(src[b], s0, dead); if (par < 0) src_roots[b].erase(std::find(src_roots[b].begin(), src_roots[b].end(), s0)); else { auto &kv = src[b][(size_t)par].kids; kv.erase(std::find(kv.begin(), kv.end(), s0)); }
            for (auto &e : ents) { if (e.kind == "source" && dead.count(e.id)) e.alive = false; std::vector<std::string> keep; for (auto &x : e.sources) if (!dead.count(x)) keep.push_back(x); e.sources.swap(keep); } }
        else { std::vector<size_t> live; for (size_t i = 0; i < ents.size(); i++) if (ents[i].alive && (ents[i].kind == "data_array" || ents[i].kind == "tag")) live.push_back(i); if (live.empty()) return; size_t e0 = r.pick(live); Ent &e = ents[e0]; c.op("delete " + e.kind);
            if (e.kind == "data_array") { for (auto &o : ents) if (o.alive && o.kind == "multi_tag" && o.name == "mt-of-" + e.name) return; blocks[e.block].deleteDataArray(e.id); } else blocks[e.block].deleteTag(e.id); e.alive = false; }
        c.count("deletions");
    }

    void build() {
        f = File::open(c.path("c20.nix"), FileMode::Overwrite);
        grow_sections(c.quick() ? 4 : 5, c.quick() ? 3 : 4);
        size_t nb = 1 + r.u(2); src.resize(nb); src_roots.resize(nb);
        for (size_t b = 0; b < nb; b++) { blocks.push_back(f.createBlock("blk" + str(b), "t")); grow_sources(b, 4, 3); Ent be{"block", blocks[b].id(), blocks[b].name(), b, "", {}, true}; ents.push_back(be); }
        for (size_t b = 0; b < nb; b++) {
            for (size_t i = 0; i < src[b].size(); i++) { Ent e{"source", src[b][i].id, src[b][i].name, b, "", {}, true}; ents.push_back(e); }
            int na = 2 + (int)r.u(4); for (int i = 0; i < na; i++) { DataArray a = blocks[b].createDataArray("arr" + str(i), "t", DataType::Double, NDSize{2}); ents.push_back({"data_array", a.id(), a.name(), b, "", {}, true}); }
            int nt = 1 + (int)r.u(3); for (int i = 0; i < nt; i++) { Tag t = blocks[b].createTag("tag" + str(i), "t", {1.0}); ents.push_back({"tag", t.id(), t.name(), b, "", {}, true}); }
            int nm = (int)r.u(3); for (int i = 0; i < nm; i++) { DataArray pa = blocks[b].createDataArray("pos" + str(i), "t", DataType::Double, NDSize{2}); ents.push_back({"data_array", pa.id(), pa.name(), b, "", {}, true}); MultiTag t = blocks[b].createMultiTag("mt-of-pos" + str(i), "t", pa); ents.push_back({"multi_tag", t.id(), t.name(), b, "", {}, true}); }
        }
        // random assignment of metadata and sources, section links
        for (auto &e : ents) {
            if (!sec.empty() && r.chance(0.6)) { size_t s0 = r.u(sec.size()); Section s = sec_handle(s0); e.meta = sec[s0].id;
                if (e.kind == "block") blocks[e.block].metadata(s); else if (e.kind == "data_array") blocks[e.block].getDataArray(e.id).metadata(s); else if (e.kind == "tag") blocks[e.block].getTag(e.id).metadata(s); else if (e.kind == "multi_tag") blocks[e.block].getMultiTag(e.id).metadata(s);
                else { for (size_t i = 0; i < src[e.block].size(); i++) if (src[e.block][i].id == e.id) src_handle(e.block, i).metadata(s); } }
            if (e.kind != "block" && e.kind != "source" && !src[e.block].empty()) { int n = (int)r.u(3); for (int q = 0; q < n; q++) { size_t s0 = r.u(src[e.block].size()); const std::string &sid = src[e.block][s0].id; if (std::find(e.sources.begin(), e.sources.end(), sid) != e.sources.end()) continue; Source s = src_handle(e.block, s0);
                if (e.kind == "data_array") blocks[e.block].getDataArray(e.id).addSource(s); else if (e.kind == "tag") blocks[e.block].getTag(e.id).addSource(s); else blocks[e.block].getMultiTag(e.id).addSource(s); e.sources.push_back(sid); } }
        }
        for (size_t i = 0; i < sec.size(); i++) if (r.chance(0.35)) { size_t j = r.u(sec.size()); if (j == i) continue; sec_handle(i).link(sec_handle(j)); link[sec[i].id] = sec[j].id; }
        c.count("sections", (long)sec.size()); long ns = 0; for (auto &t : src) ns += (long)t.size(); c.count("sources", ns); c.count("entities", (long)ents.size());
    }
};

void run_case(Ctx &c) {
    W w(c); w.build(); Rng &r = c.rng;
    int nq = c.quick() ? 50 : 80;
    for (int i = 0; i < nq; i++) {
        int k = (int)r.weighted({5, 5, 3, i > nq / 3 ? 1 : 0});
        try { if (k == 0) w.query_sections(); else if (k == 1) w.query_sources(); else if (k == 2) w.query_backrefs(); else w.random_delete(); }
        catch (std::exception &e) { c.check(false, "C20/legal-query-threw/kind" + str(k), std::string("query threw: ") + e.what()); }
        c.fp(str(k));
    }
    c.nontrivial = c.checks > 30; w.blocks.clear(); w.f.close();
}
long ncases(const std::string &tier) { return tier == "quick" ? 200 : 5000; }
std::vector<std::string> witnesses() { return {}; }
void run_witness(Ctx &, const std::string &) {}
Reg reg({"C20", ncases, run_case, witnesses, run_witness, 120});
}  // namespace
