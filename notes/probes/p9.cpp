#include <nix.hpp>
#include <iostream>
using namespace nix;
#define M(x) try { x; std::cout << "NO-THROW  " #x << std::endl; } catch (std::exception &e) { std::cout << "throws    " #x << std::endl; } catch (...) { std::cout << "throws(?) " #x << std::endl; }
int main() {
    std::string path = "/tmp/probe/p9.nix";
    {
        File f = File::open(path, FileMode::Overwrite);
        Block b = f.createBlock("b", "t");
        Section s = f.createSection("s", "t"); Section s2 = s.createSection("c", "t"); s2.link(s);
        Property p = s.createProperty("p", Variant(1.0)); p.unit("mV"); p.definition("d"); p.uncertainty(0.1);
        Source src = b.createSource("src", "t"); src.createSource("child", "t");
        DataArray a = b.createDataArray("a", "t", DataType::Double, NDSize{4}); a.label("l"); a.unit("mV"); a.expansionOrigin(1.0); a.polynomCoefficients({1.0,2.0});
        a.appendSampledDimension(0.1, "time", "s"); a.addSource(src); a.metadata(s); a.definition("def");
        DataArray e = b.createDataArray("e", "t", DataType::Double, NDSize{4});
        std::vector<Column> cols = {{"c1", "", DataType::Int32}}; DataFrame df = b.createDataFrame("df", "t", cols); df.rows(2);
        Tag t = b.createTag("t", "t", {1.0}); t.extent({1.0}); t.units({"s"}); t.addReference(a); t.createFeature(a, LinkType::Tagged); t.addSource(src); t.metadata(s);
        MultiTag mt = b.createMultiTag("mt", "t", a); mt.extents(e); mt.addReference(a); mt.createFeature(a, LinkType::Indexed);
        Group g = b.createGroup("g", "t"); g.addDataArray(a); g.addTag(t); g.addMultiTag(mt); g.addDataFrame(df);
        b.metadata(s);
        f.close();
    }
    File f = File::open(path, FileMode::ReadOnly);
    Block b = f.getBlock("b"); Section s = f.getSection("s"); Section s2 = s.getSection("c"); Property p = s.getProperty("p");
    Source src = b.getSource("src"); DataArray a = b.getDataArray("a"); DataArray e = b.getDataArray("e"); DataFrame df = b.getDataFrame("df");
    Tag t = b.getTag("t"); MultiTag mt = b.getMultiTag("mt"); Group g = b.getGroup("g"); Feature ft = t.getFeature(0);
    SampledDimension sd = a.getDimension(1).asSampledDimension();
    M(f.createBlock("x","t")); M(f.deleteBlock("b")); M(f.createSection("x","t")); M(f.deleteSection("s")); M(f.forceId()); M(f.forceUpdatedAt()); M(f.forceCreatedAt(5));
    M(b.type("x")); M(b.definition("x")); M(b.definition(none)); M(b.metadata(none)); M(b.metadata(s)); M(b.forceUpdatedAt());
    M(b.createDataArray("x","t",DataType::Double,NDSize{1})); M(b.deleteDataArray("a")); M(b.createTag("x","t",{1.0})); M(b.deleteTag("t")); M(b.createMultiTag("x","t",a)); M(b.deleteMultiTag("mt"));
    M(b.createGroup("x","t")); M(b.deleteGroup("g")); M(b.createSource("x","t")); M(b.deleteSource("src")); M(b.deleteDataFrame("df"));
    M(a.label("x")); M(a.label(none)); M(a.unit("V")); M(a.unit(none)); M(a.expansionOrigin(2.0)); M(a.expansionOrigin(none)); M(a.polynomCoefficients({1.0})); M(a.polynomCoefficients(none));
    M(a.dataExtent(NDSize{5})); std::vector<double> d{1,2,3,4}; M(a.setData(d)); M(a.appendSetDimension()); M(a.deleteDimensions()); M(a.addSource(src)); M(a.removeSource(src));
    M(sd.label("x")); M(sd.label(none)); M(sd.unit("ms")); M(sd.unit(none)); M(sd.samplingInterval(2.0)); M(sd.offset(1.0)); M(sd.offset(none));
    M(df.rows(5)); M(df.writeCell(0,0,Variant(int32_t(1))));
    M(t.position({2.0})); M(t.extent({2.0})); M(t.extent(none)); M(t.units({"ms"})); M(t.units(none)); M(t.addReference(e)); M(t.removeReference(a)); M(t.createFeature(e, LinkType::Untagged)); M(t.deleteFeature(ft)); M(t.removeSource(src)); M(t.metadata(none));
    M(ft.linkType(LinkType::Untagged)); M(ft.data(e));
    M(mt.positions(e)); M(mt.extents(none)); M(mt.extents(e)); M(mt.units({"s"})); M(mt.removeReference(a));
    M(g.removeDataArray(a)); M(g.addDataArray(e)); M(g.removeTag(t));
    M(src.createSource("x","t")); M(src.deleteSource("child"));
    M(s.repository("x")); M(s.repository(none)); M(s2.link(none)); M(s2.link(s)); M(s.createSection("x","t")); M(s.deleteSection("c")); M(s.createProperty("x", Variant(1.0))); M(s.deleteProperty("p"));
    M(p.values({Variant(2.0)})); M(p.deleteValues()); M(p.unit("V")); M(p.unit(none)); M(p.definition("x")); M(p.definition(none)); M(p.uncertainty(1.0)); M(p.uncertainty(none));
    f.close();
}
