#include <nix.hpp>
#include <nix/util/util.hpp>
#include <hdf5.h>
#include <iostream>
#include <map>
#include <cmath>
using namespace nix;
static const char *PFX[] = {"", "Y","Z","E","P","T","G","M","k","h","da","d","c","m","u","n","p","f","a","z","y"};
static const int PEXP[] = {0, 24,21,18,15,12,9,6,3,2,1,-1,-2,-3,-6,-9,-12,-15,-18,-21,-24};
static const char *UNITS[] = {"m","g","s","A","K","mol","cd","Hz","N","Pa","J","W","C","V","F","S","Wb","T","H","lm","lx","Bq","Gy","Sv","kat","l","L","Ohm","%","dB","rad"};
int main(int argc, char **argv) {
  int which = argc > 1 ? atoi(argv[1]) : 0;
  if (which == 0) { // C18a
    std::map<std::string,long> bad; long n = 0;
    int pows[] = {0, 1, 2, 3, -1, -2, -3};
    for (const char *u : UNITS) for (int pw : pows) {
      std::string suffix = pw == 0 ? "" : "^" + std::to_string(pw);
      for (int a = 0; a < 21; a++) for (int b = 0; b < 21; b++) {
        std::string ua = std::string(PFX[a]) + u + suffix, ub = std::string(PFX[b]) + u + suffix; n++;
        int power = pw == 0 ? 1 : pw; double expect = std::pow(10.0L, (long double)power * (PEXP[a] - PEXP[b]));
        try { if (!util::isSIUnit(ua) || !util::isSIUnit(ub)) { bad[std::string("not-SI/") + u]++; continue; }
              if (!util::isScalable(ua, ub)) { bad[std::string("not-scalable/") + u + suffix]++; continue; }
              double f = util::getSIScaling(ua, ub); double rel = std::fabs(f - expect) / expect;
              if (!(rel <= 64 * 2.2e-16)) { bad[std::string("wrong-factor/") + u + suffix + (rel > 1e-3 ? "/gross" : "/ulps")]++; if (bad.size() < 4 || rel > 1e-3) if (bad[std::string("wrong-factor/") + u + suffix + (rel > 1e-3 ? "/gross" : "/ulps")] == 1) std::cout << "  e.g. " << ua << "->" << ub << " got " << f << " want " << expect << " rel " << rel << "\n"; }
        } catch (std::exception &e) { bad[std::string("throws/") + u + suffix + "/" + e.what()]++; } } }
    std::cout << "pairs=" << n << "\n"; for (auto &kv : bad) std::cout << "  " << kv.second << " " << kv.first.substr(0, 70) << "\n";
    // cross-base rejection
    long rej = 0, acc = 0; for (const char *u : UNITS) for (const char *v : UNITS) if (std::string(u) != v) { try { util::getSIScaling(std::string("m") + u, v); acc++; std::cout << "  ACCEPTED m" << u << " -> " << v << "\n"; } catch (...) { rej++; } } std::cout << "cross-base rejected=" << rej << " accepted=" << acc << "\n";
  }
  if (which == 1) { // C10
    std::string path = "/tmp/probe/p15.nix"; { File f = File::open(path, FileMode::Overwrite); f.createBlock("b", "t"); auto v = f.version(); std::cout << "lib version " << v[0] << "." << v[1] << "." << v[2] << "\n"; f.close(); }
    File f0 = File::open(path, FileMode::ReadOnly); auto L = f0.version(); f0.close();
    long n = 0, bad = 0;
    for (int dx = -2; dx <= 2; dx++) for (int dy = -2; dy <= 2; dy++) for (int dz = -2; dz <= 2; dz++) {
      int v[3] = {L[0] + dx, L[1] + dy, L[2] + dz};
      hid_t h = H5Fopen(path.c_str(), H5F_ACC_RDWR, H5P_DEFAULT); hid_t a = H5Aopen(h, "version", H5P_DEFAULT); H5Awrite(a, H5T_NATIVE_INT, v); H5Aclose(a); H5Fclose(h);
      for (int mode = 0; mode < 2; mode++) for (int force = 0; force < 2; force++) {
        bool expect = force || (mode == 0 ? (dx == 0 && dy <= 0) : (dx == 0 && dy == 0 && dz == 0)); bool got = false;
        try { File f = File::open(path, mode == 0 ? FileMode::ReadOnly : FileMode::ReadWrite, "hdf5", Compression::Auto, force ? OpenFlags::Force : OpenFlags::None); got = f.isOpen(); auto fv = f.version(); if (got && (fv[0] != v[0] || fv[1] != v[1] || fv[2] != v[2])) { std::cout << "  version echo mismatch\n"; bad++; } f.close(); } catch (std::exception &) { got = false; }
        n++; if (got != expect) { bad++; if (bad < 10) std::cout << "  GATE mismatch v=" << v[0] << "." << v[1] << "." << v[2] << " mode=" << mode << " force=" << force << " expect=" << expect << " got=" << got << "\n"; } } }
    std::cout << "gate cases=" << n << " bad=" << bad << "\n";
  }
  if (which == 2) { // C19 breaches one at a time
    std::string path = "/tmp/probe/p15v.nix";
    auto build = [&](File &f) { Block b = f.createBlock("b", "t");
      DataArray a = b.createDataArray("a", "t", DataType::Double, NDSize{5, 3, 2}); a.unit("mV"); a.appendSampledDimension(0.1, "t", "s"); a.appendRangeDimension({1, 2, 3}, "x", "ms"); a.appendSetDimension({"l", "r"});
      DataArray u = b.createDataArray("u", "t", DataType::Double, NDSize{4, 3}); u.unit("mV"); u.appendSampledDimension(0.1, "t", "s"); u.appendRangeDimension({1, 2, 3}, "x", "ms");
      std::vector<Column> cols = {{"c", "", DataType::Int32}}; DataFrame df = b.createDataFrame("df", "t", cols); df.rows(4); DataArray fd = b.createDataArray("fd", "t", DataType::Double, NDSize{4}); fd.appendDataFrameDimension(df, 0);
      DataArray pos = b.createDataArray("pos", "t", DataType::Double, NDSize{2, 2}); pos.appendSetDimension(); pos.appendSetDimension();
      Tag t = b.createTag("t", "t", {0.1, 1.0}); t.units({"ms", "s"}); t.addReference(u); t.createFeature(pos, LinkType::Untagged);
      MultiTag mt = b.createMultiTag("mt", "t", pos); mt.addReference(u); mt.units({"s", "ms"}); };
    const char *names[] = {"none", "extra-dim", "missing-dim", "ticks-count", "labels-count", "frame-rows", "unsorted-ticks(2nd dim)", "nonpositive-interval", "tag-unit-first", "tag-unit-second", "mtag-no-positions", "feature-no-data", "soft: array unit non-SI", "soft: poly w/o origin", "soft: prop value w/o unit"};
    for (int br = 0; br < 15; br++) {
      File f = File::open(path, FileMode::Overwrite); build(f); Block b = f.getBlock("b"); std::string target;
      try {
      switch (br) {
        case 1: b.getDataArray("a").appendSetDimension(); target = b.getDataArray("a").id(); break;
        case 2: { DataArray x = b.createDataArray("x", "t", DataType::Double, NDSize{2, 2}); x.appendSetDimension(); target = x.id(); break; }
        case 3: b.getDataArray("a").getDimension(2).asRangeDimension().ticks({1, 2, 3, 4}); target = b.getDataArray("a").id(); break;
        case 4: b.getDataArray("a").getDimension(3).asSetDimension().labels({"only"}); target = b.getDataArray("a").id(); break;
        case 5: b.getDataFrame("df").rows(7); target = b.getDataArray("fd").id(); break;
        case 6: { DataArray x = b.createDataArray("x", "t", DataType::Double, NDSize{2, 3}); x.appendSetDimension(); x.appendRangeDimension({3, 1, 2}); target = "unknown"; break; }
        case 7: { DataArray x = b.createDataArray("x", "t", DataType::Double, NDSize{2}); x.appendSampledDimension(-1.0); target = "unknown"; break; }
        case 8: b.getTag("t").units({"mV", "s"}); target = b.getTag("t").id(); break;
        case 9: b.getTag("t").units({"ms", "mV"}); target = b.getTag("t").id(); break;
        case 10: { DataArray p2 = b.createDataArray("p2", "t", DataType::Double, NDSize{2, 2}); p2.appendSetDimension(); p2.appendSetDimension(); MultiTag m2 = b.createMultiTag("m2", "t", p2); target = m2.id(); b.deleteDataArray("p2"); break; }
        case 11: { DataArray q = b.createDataArray("q", "t", DataType::Double, NDSize{2}); q.appendSetDimension(); Feature ft = b.getTag("t").createFeature(q, LinkType::Untagged); target = ft.id(); b.deleteDataArray("q"); break; }
        case 12: b.getDataArray("a").unit("furlong"); target = b.getDataArray("a").id(); break;
        case 13: b.getDataArray("a").polynomCoefficients({1.0, 2.0}); target = b.getDataArray("a").id(); break;
        case 14: { Section s = f.createSection("s", "t"); Property p = s.createProperty("p", Variant(1.0)); target = p.id(); break; }
      } } catch (std::exception &e) { std::cout << names[br] << ": INJECTION REFUSED " << e.what() << "\n"; f.close(); continue; }
      auto r = f.validate(); int attributable = 0, wattr = 0; for (auto &m : r.getErrors()) if (m.id == target) attributable++; for (auto &m : r.getWarnings()) if (m.id == target) wattr++;
      std::cout << names[br] << ": errors=" << r.getErrors().size() << " (for target " << attributable << ") warnings=" << r.getWarnings().size() << " (for target " << wattr << ")\n";
      f.close(); }
  }
}
