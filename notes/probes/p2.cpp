#include <nix.hpp>
#include <nix/util/dataAccess.hpp>
#include <iostream>
using namespace nix;
#define TRY(x) try { x; } catch (std::exception &e) { std::cout << "EXC[" #x "] " << e.what() << "\n"; }
int main(int argc, char**argv) {
    int which = argc > 1 ? atoi(argv[1]) : 0;
    File f = File::open("/tmp/probe/p2.nix", FileMode::Overwrite);
    Block b = f.createBlock("b", "t");
    if (which == 0) {
        DataArray a = b.createDataArray("s", "t", DataType::String, NDSize{4});
        std::vector<std::string> r;
        a.getData(r);
        std::cout << "read " << r.size() << "\n";
    }
    if (which == 1) {
        Section s = f.createSection("s", "t");
        Property p = s.createProperty("p", DataType::String);
        std::cout << "count " << p.valueCount() << "\n";
        auto v = p.values();
        std::cout << "vals " << v.size() << "\n";
        Property q = s.createProperty("q", DataType::Int32);
        std::cout << "count " << q.valueCount() << " " << q.values().size() << "\n";
    }
    if (which == 2) {
        std::vector<Column> cols = {{"a", "", DataType::String}, {"b", "mV", DataType::Int32}};
        DataFrame df = b.createDataFrame("df", "t", cols);
        df.rows(3);
        df.writeCell(1, 1, Variant(int32_t(5)));
        auto row = df.readRow(0);
        std::cout << "row " << row.size() << " " << row[0] << row[1] << "\n";
        std::vector<std::string> c;
        df.readColumn(0, c, true);
        std::cout << "col " << c.size() << "\n";
    }
    if (which == 3) {
        // dataSlice with fewer entries
        DataArray a = b.createDataArray("d", "t", DataType::Double, NDSize{5, 4});
        a.appendSampledDimension(0.1, "time", "s");
        a.appendSetDimension();
        DataView v = util::dataSlice(a, {0.1}, {0.3}, {}, RangeMatch::Inclusive);
        std::cout << v.dataExtent() << "\n";
    }
    if (which == 4) {
        DataArray pos = b.createDataArray("pos", "t", DataType::Double, NDSize{3});
        std::vector<double> pv{1.0, 3.0, 5.0}; pos.setData(pv);
        DataArray d = b.createDataArray("d", "t", DataType::Double, NDSize{10});
        std::vector<double> dv(10); for (int i=0;i<10;i++) dv[i]=i*10; d.setData(dv);
        d.appendSampledDimension(1.0, "time", "s");
        MultiTag mt = b.createMultiTag("mt", "t", pos);
        mt.addReference(d);
        for (int i = 0; i < 3; i++) {
            TRY({ DataView v = mt.taggedData(i, 0); std::vector<double> r; v.getData(r); std::cout << "pos " << i << " -> n=" << r.size() << " first=" << r[0] << "\n"; });
        }
        TRY({ Feature ft = mt.getFeature(0); std::cout << "feature ok " << (bool)ft << "\n"; });
    }
    f.close();
}
