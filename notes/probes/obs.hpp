// throw-away mini observer (prototype for DESIGN §2.4) - canonical text dump through public getters only
#pragma once
#include <nix.hpp>
#include <sstream>
#include <iomanip>
#include <cstring>
using namespace nix;
struct Obs {
    std::ostringstream o; int ind = 0;
    void line(const std::string &k, const std::string &v) { o << std::string(ind*2, ' ') << k << "=" << v << "\n"; }
    template<typename F> std::string safe(F f) { try { return f(); } catch (std::exception &e) { return std::string("<exc>"); } catch (...) { return "<exc?>"; } }
    static std::string opt(const boost::optional<std::string> &s) { return s ? "\"" + *s + "\"" : "none"; }
    static std::string optd(const boost::optional<double> &d) { if (!d) return "none"; std::ostringstream x; x << std::setprecision(17) << *d; return x.str(); }
    static std::string vd(const std::vector<double> &v) { std::ostringstream x; x << std::setprecision(17) << "["; for (auto d : v) x << d << ","; x << "]"; return x.str(); }
    static std::string vs(const std::vector<std::string> &v) { std::ostringstream x; x << "["; for (auto &d : v) x << "\"" << d << "\","; x << "]"; return x.str(); }
    template<typename E> void named(const E &e) {
        line("id", safe([&]{ return e.id(); })); line("name", safe([&]{ return e.name(); })); line("type", safe([&]{ return e.type(); }));
        line("definition", safe([&]{ return opt(e.definition()); })); line("created_at", safe([&]{ return std::to_string(e.createdAt()); }));
    }
    template<typename E> void meta(const E &e) { line("metadata", safe([&]{ Section m = e.metadata(); return m ? m.id() : std::string("none"); })); }
    template<typename E> void sources(const E &e) { line("sources", safe([&]{ std::string r; for (auto &s : e.sources()) r += s.id() + ","; return r; })); }
    void dim(const Dimension &d) {
        line("dim.index", safe([&]{ return std::to_string(d.index()); }));
        DimensionType t = d.dimensionType();
        if (t == DimensionType::Sample) { auto s = d.asSampledDimension(); line("sampled", safe([&]{ return opt(s.label()) + " " + opt(s.unit()) + " " + optd(s.samplingInterval()) + " " + optd(s.offset()); })); }
        else if (t == DimensionType::Range) { auto s = d.asRangeDimension(); line("range", safe([&]{ return opt(s.label()) + " " + opt(s.unit()) + " alias=" + std::to_string(s.alias()) + " " + vd(s.ticks()); })); }
        else if (t == DimensionType::Set) { auto s = d.asSetDimension(); line("set", safe([&]{ return opt(s.label()) + " " + vs(s.labels()); })); }
        else { auto s = d.asDataFrameDimension(); line("frame", safe([&]{ DataFrame df = s.data(); auto ci = s.columnIndex(); return df.id() + " col=" + (ci ? std::to_string(*ci) : "none"); })); }
    }
    void array(const DataArray &a) {
        named(a); meta(a); sources(a);
        line("label", safe([&]{ return opt(a.label()); })); line("unit", safe([&]{ return opt(a.unit()); }));
        line("origin", safe([&]{ return optd(a.expansionOrigin()); })); line("poly", safe([&]{ return vd(a.polynomCoefficients()); }));
        line("dtype", safe([&]{ std::ostringstream x; x << a.dataType(); return x.str(); }));
        line("extent", safe([&]{ std::ostringstream x; x << a.dataExtent(); return x.str(); }));
        line("data", safe([&]{ NDSize e = a.dataExtent(); size_t n = e.nelms(); std::ostringstream x; x << std::setprecision(17);
            if (a.dataType() == DataType::String) { std::vector<std::string> v(n); if (n) a.getDataDirect(DataType::String, v.data(), e, NDSize(e.size(), 0)); for (auto &s : v) x << "\"" << s << "\","; }
            else { std::vector<double> v(n); if (n) a.getDataDirect(DataType::Double, v.data(), e, NDSize(e.size(), 0)); for (auto d : v) x << d << ","; }
            return x.str(); }));
        ind++; for (ndsize_t i = 1; i <= a.dimensionCount(); i++) { try { dim(a.getDimension(i)); } catch (...) { line("dim", "<exc>"); } } ind--;
    }
    void frame(const DataFrame &c) { DataFrame f = c;
        named(f); meta(f); sources(f);
        line("columns", safe([&]{ std::ostringstream x; for (auto &c : f.columns()) x << c.name << ":" << c.unit << ":" << c.dtype << ","; return x.str(); }));
        line("rows", safe([&]{ return std::to_string(f.rows()); }));
        line("cells", safe([&]{ std::ostringstream x; for (ndsize_t r = 0; r < f.rows(); r++) { for (auto &v : f.readRow(r)) x << v << ","; x << ";"; } return x.str(); }));
    }
    void feature(const Feature &f) { line("feature", safe([&]{ std::ostringstream x; x << f.id() << " " << f.linkType() << " data=" << (f.data() ? f.data().id() : std::string("none")); return x.str(); })); }
    template<typename T> void basetag(const T &t) {
        named(t); meta(t); sources(t);
        line("units", safe([&]{ return vs(t.units()); }));
        line("references", safe([&]{ std::string r; for (auto &a : t.references()) r += a.id() + ","; return r; }));
        ind++; try { for (auto &f : t.features()) feature(f); } catch (...) { line("features", "<exc>"); } ind--;
    }
    void tag(const Tag &t) { basetag(t); line("position", safe([&]{ return vd(t.position()); })); line("extent", safe([&]{ return vd(t.extent()); })); }
    void mtag(const MultiTag &t) { basetag(t); line("positions", safe([&]{ DataArray a = t.positions(); return a ? a.id() : std::string("none"); })); line("extents", safe([&]{ DataArray a = t.extents(); return a ? a.id() : std::string("none"); })); }
    void group(const Group &g) { named(g); meta(g); sources(g);
        line("members", safe([&]{ std::string r = "da:"; for (auto &a : g.dataArrays()) r += a.id() + ","; r += " df:"; for (auto &a : g.dataFrames()) r += a.id() + ","; r += " tg:"; for (auto &a : g.tags()) r += a.id() + ","; r += " mt:"; for (auto &a : g.multiTags()) r += a.id() + ","; return r; })); }
    void source(const Source &s) { named(s); meta(s); ind++; try { for (auto &c : s.sources()) { line("source", ""); source(c); } } catch (...) { line("sources", "<exc>"); } ind--; }
    void property(const Property &p) { line("property", safe([&]{ std::ostringstream x; x << std::setprecision(17) << p.id() << " " << p.name() << " " << opt(p.definition()) << " " << p.dataType() << " " << opt(p.unit()) << " " << optd(p.uncertainty()) << " n=" << p.valueCount() << " ["; for (auto &v : p.values()) x << v << ","; x << "] created=" << p.createdAt(); return x.str(); })); }
    void section(const Section &s) { named(s); line("repository", safe([&]{ return opt(s.repository()); })); line("link", safe([&]{ Section l = s.link(); return l ? l.id() : std::string("none"); }));
        ind++; try { for (auto &p : s.properties()) property(p); for (auto &c : s.sections()) { line("section", ""); section(c); } } catch (...) { line("children", "<exc>"); } ind--; }
    void block(const Block &b) { named(b); meta(b); ind++;
        try { for (auto &a : b.dataArrays()) { line("data_array", ""); ind++; array(a); ind--; } } catch (...) { line("data_arrays", "<exc>"); }
        try { for (auto &a : b.dataFrames()) { line("data_frame", ""); ind++; frame(a); ind--; } } catch (...) { line("data_frames", "<exc>"); }
        try { for (auto &a : b.tags()) { line("tag", ""); ind++; tag(a); ind--; } } catch (...) { line("tags", "<exc>"); }
        try { for (auto &a : b.multiTags()) { line("multi_tag", ""); ind++; mtag(a); ind--; } } catch (...) { line("multi_tags", "<exc>"); }
        try { for (auto &a : b.groups()) { line("group", ""); ind++; group(a); ind--; } } catch (...) { line("groups", "<exc>"); }
        try { for (auto &a : b.sources()) { line("source", ""); ind++; source(a); ind--; } } catch (...) { line("sources", "<exc>"); }
        ind--; }
    std::string file(const File &f) { o.str(""); line("file.id", safe([&]{ return f.id(); })); line("format", safe([&]{ return f.format(); })); line("version", safe([&]{ auto v = f.version(); return std::to_string(v[0]) + "." + std::to_string(v[1]) + "." + std::to_string(v[2]); })); line("created_at", safe([&]{ return std::to_string(f.createdAt()); }));
        for (auto &b : f.blocks()) { line("block", ""); ind++; block(b); ind--; }
        for (auto &s : f.sections()) { line("section", ""); ind++; section(s); ind--; }
        return o.str(); }
};
