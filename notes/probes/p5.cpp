#include <nix.hpp>
#include <hdf5.h>
#include <iostream>
#include <unistd.h>
#include <dirent.h>
#include <signal.h>
#include <sys/wait.h>
using namespace nix;
#define TRY(x) try { x; } catch (std::exception &e) { std::cout << "EXC[" #x "] " << e.what() << std::endl; } catch (...) { std::cout << "EXC-unknown[" #x "]" << std::endl; }
static int fds_on(const std::string &path) {
    int n = 0; DIR *d = opendir("/proc/self/fd"); struct dirent *e; char buf[4096];
    while ((e = readdir(d))) { std::string p = std::string("/proc/self/fd/") + e->d_name; ssize_t l = readlink(p.c_str(), buf, sizeof(buf)-1); if (l > 0) { buf[l]=0; if (path == buf) n++; } }
    closedir(d); return n;
}
int main(int argc, char**argv) {
    int which = argc > 1 ? atoi(argv[1]) : 0;
    std::string path = "/tmp/probe/p5.nix";
    if (which == 0) { // shrink then grow
        File f = File::open(path, FileMode::Overwrite);
        Block b = f.createBlock("b", "t");
        for (auto comp : {Compression::None, Compression::DeflateNormal}) {
            DataArray a = b.createDataArray(comp == Compression::None ? "a" : "z", "t", DataType::Int32, NDSize{6, 5}, comp);
            std::vector<int32_t> d(30); for (int i = 0; i < 30; i++) d[i] = 100 + i;
            a.setData(DataType::Int32, d.data(), NDSize{6,5}, NDSize{0,0});
            a.dataExtent(NDSize{3, 2});
            a.dataExtent(NDSize{6, 5});
            std::vector<int32_t> r(30, -1);
            a.getData(DataType::Int32, r.data(), NDSize{6,5}, NDSize{0,0});
            for (int i = 0; i < 30; i++) std::cout << r[i] << (i%5==4 ? "\n" : " ");
            std::cout << "--\n";
        }
        DataArray s = b.createDataArray("s", "t", DataType::Double, NDSize{4});
        s.dataExtent(NDSize{8}); std::vector<double> r; s.getData(r); for (auto x : r) std::cout << x << " "; std::cout << "\n";
        f.close();
    }
    if (which == 1) { // release after close
        File f = File::open(path, FileMode::Overwrite);
        Block b = f.createBlock("b", "t");
        DataArray a = b.createDataArray("a", "t", DataType::Int32, NDSize{6});
        Section s = f.createSection("s", "t"); Property p = s.createProperty("p", Variant(1.0));
        std::cout << "open ids before close: " << H5Fget_obj_count((hid_t)H5F_OBJ_ALL, H5F_OBJ_ALL) << " fds=" << fds_on(path) << std::endl;
        f.close();
        std::cout << "open ids after close: " << H5Fget_obj_count((hid_t)H5F_OBJ_ALL, H5F_OBJ_ALL) << " fds=" << fds_on(path) << std::endl;
    }
    if (which == 2) { // kill after flush
        int pfd[2]; pipe(pfd);
        pid_t pid = fork();
        if (pid == 0) {
            File f = File::open(path, FileMode::Overwrite);
            Block b = f.createBlock("b", "t");
            DataArray a = b.createDataArray("a", "t", DataType::Int32, NDSize{1000});
            std::vector<int32_t> d(1000, 7); a.setData(d);
            Section s = f.createSection("s", "t"); s.createProperty("p", Variant("hello"));
            f.flush();
            char c = 'f'; write(pfd[1], &c, 1);
            pause();
            _exit(0);
        }
        char c; read(pfd[0], &c, 1);
        kill(pid, SIGKILL); int st; waitpid(pid, &st, 0);
        std::cout << "child killed sig=" << WTERMSIG(st) << std::endl;
        TRY({ File f = File::open(path, FileMode::ReadOnly); std::cout << "RO blocks=" << f.blockCount() << " prop=" << f.getSection("s").getProperty("p").values()[0] << std::endl; std::vector<int32_t> r; f.getBlock("b").getDataArray("a").getData(r); std::cout << "data " << r.size() << " " << r[999] << std::endl; f.close(); });
        TRY({ File f = File::open(path, FileMode::ReadWrite); std::cout << "RW blocks=" << f.blockCount() << std::endl; f.close(); });
    }
    if (which == 3) { // ids
        File f = File::open(argv[2], FileMode::Overwrite);
        std::cout << f.id() << " " << f.createBlock("b", "t").id() << std::endl;
        f.close();
    }
    if (which == 4) { // deleteSource handle from other block
        File f = File::open(path, FileMode::Overwrite);
        Block b1 = f.createBlock("b1", "t"), b2 = f.createBlock("b2", "t");
        Source s1 = b1.createSource("src", "t"), s2 = b2.createSource("src", "t");
        bool r = b1.deleteSource(s2);
        std::cout << "deleteSource(other's handle) returned " << r << " b1 count=" << b1.sourceCount() << " b2 count=" << b2.sourceCount() << std::endl;
        DataArray a1 = b1.createDataArray("arr", "t", DataType::Int32, NDSize{1}), a2 = b2.createDataArray("arr", "t", DataType::Int32, NDSize{1});
        r = b1.deleteDataArray(a2);
        std::cout << "deleteDataArray(other's handle) returned " << r << " b1 count=" << b1.dataArrayCount() << std::endl;
        f.close();
    }
}
