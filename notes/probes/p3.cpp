#include <nix.hpp>
#include <nix/util/dataAccess.hpp>
#include <nix/util/util.hpp>
#include <iostream>
using namespace nix;
#define TRY(x) try { x; } catch (std::exception &e) { std::cout << "EXC[" #x "] " << e.what() << "\n"; }
int main(int argc, char**argv) {
    int which = argc > 1 ? atoi(argv[1]) : 0;
    File f = File::open("/tmp/probe/p3.nix", FileMode::Overwrite);
    Block b = f.createBlock("b", "t");
    Block b2 = f.createBlock("b2", "t");
    if (which == 0) { // duplicate dataframe
        std::vector<Column> cols = {{"a", "", DataType::Int32}};
        DataFrame d1 = b.createDataFrame("df", "t1", cols);
        std::string id1 = d1.id();
        TRY(DataFrame d2 = b.createDataFrame("df", "t2", cols));
        std::cout << "count=" << b.dataFrameCount() << " id same=" << (b.getDataFrame("df").id()==id1) << " type=" << b.getDataFrame("df").type() << "\n";
        TRY(b.createDataFrame("x/y", "t", cols));
        TRY(b.createDataFrame("emptytype", "", cols));
        std::cout << "count=" << b.dataFrameCount() << " has emptytype=" << b.hasDataFrame("emptytype") << "\n";
    }
    if (which == 1) { // multitag with foreign positions
        DataArray pos = b2.createDataArray("pos", "t", DataType::Double, NDSize{3});
        TRY(b.createMultiTag("mt", "t", pos));
        std::cout << "mt count=" << b.multiTagCount() << " has=" << b.hasMultiTag("mt") << "\n";
    }
    if (which == 2) { // metadata rejected drops old
        Section s = f.createSection("s", "t");
        b.metadata(s);
        TRY(b.metadata("00000000-0000-0000-0000-000000000000"));
        std::cout << "metadata still set=" << (bool)b.metadata() << "\n";
        Section s2 = f.createSection("s2", "t"); s2.link(s);
        TRY(s2.link("00000000-0000-0000-0000-000000000000"));
        std::cout << "link still set=" << (bool)s2.link() << "\n";
        DataArray pos = b.createDataArray("pos", "t", DataType::Double, NDSize{3});
        DataArray ext = b.createDataArray("ext", "t", DataType::Double, NDSize{3});
        DataArray bad = b.createDataArray("bad", "t", DataType::Double, NDSize{4});
        MultiTag mt = b.createMultiTag("mt", "t", pos);
        mt.extents(ext);
        TRY(mt.extents(bad));
        std::cout << "extents still set=" << (bool)mt.extents() << "\n";
        Property p = s.createProperty("p", {Variant(int32_t(1)), Variant(int32_t(2))});
        TRY(p.values({Variant(int32_t(5)), Variant("x"), Variant(int32_t(7))}));
        std::cout << "prop count=" << p.valueCount(); for (auto &v : p.values()) std::cout << " " << v; std::cout << "\n";
    }
    if (which == 3) { // dimensions
        DataArray a = b.createDataArray("d", "t", DataType::Double, NDSize{5, 4, 3});
        TRY(a.appendRangeDimension({3.0, 1.0, 2.0}));
        TRY(a.appendSampledDimension(-1.0));
        TRY(a.appendSampledDimension(0.5, "l", "s", -2.0));
        std::cout << "dims=" << a.dimensionCount() << "\n";
        auto t = a.getDimension(1).asRangeDimension().ticks(); std::cout << "ticks " << t[0] << t[1] << t[2] << "\n";
        std::cout << "si=" << a.getDimension(2).asSampledDimension().samplingInterval() << "\n";
        auto o = a.getDimension(3).asSampledDimension().offset(); std::cout << "offset set=" << (bool)o << "\n";
    }
    if (which == 4) { // units
        const char* us[][2] = {{"mSv^2","Sv^2"},{"mWb^2","Wb^2"},{"mmol^2","mol^2"},{"mV","V"},{"mm^2","m^2"},{"ks","ms"}, {"mHz^2","Hz^2"}, {"mSv","Sv"}, {"mmol", "mol"}, {"cm^-1", "m^-1"}, {"dam", "m"}};
        for (auto &u : us) { TRY(std::cout << u[0] << "->" << u[1] << " = " << util::getSIScaling(u[0], u[1]) << "\n"); }
    }
    if (which == 5) { // tag unspecified dim
        DataArray a = b.createDataArray("d", "t", DataType::Double, NDSize{10, 5});
        a.appendSampledDimension(1.0, "time", "s");
        a.appendSetDimension();
        Tag t = b.createTag("t", "t", {2.0}); t.extent({3.0}); t.addReference(a);
        TRY({DataView v = util::taggedData(t, a, RangeMatch::Inclusive); std::cout << "incl " << v.dataExtent() << "\n";});
        TRY({DataView v = util::taggedData(t, a, RangeMatch::Exclusive); std::cout << "excl " << v.dataExtent() << "\n";});
    }
    if (which == 6) { // validator
        DataArray a = b.createDataArray("d", "t", DataType::Double, NDSize{10, 5});
        a.appendSampledDimension(1.0, "time", "s");
        a.appendSampledDimension(1.0, "volt", "V");
        Tag t = b.createTag("t", "t", {2.0, 1.0}); t.units({"mV", "mV"}); t.addReference(a);
        auto r = f.validate(); std::cout << "errors " << r.getErrors().size() << " warnings " << r.getWarnings().size() << "\n";
        for (auto &m : r.getErrors()) std::cout << " E " << m.msg << "\n";
        t.units({"ms", "ms"});
        r = f.validate(); std::cout << "errors " << r.getErrors().size() << "\n";
    }
    f.close();
}
