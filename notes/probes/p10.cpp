#include "obs.hpp"
#include <fstream>
#include <iostream>
static void build(File &f) {
    Section s1 = f.createSection("sec one", "t"), s2 = f.createSection("Sec One", "t2");
    Section c1 = s1.createSection("child", "t"), c2 = c1.createSection("child", "t"), c3 = c2.createSection("..", "t");
    s2.link(c2); s1.repository("http://x"); s1.definition("def");
    Property p1 = s1.createProperty("p-dbl", {Variant(1.5), Variant(-0.0), Variant(1e308)}); p1.unit("mV"); p1.uncertainty(0.25); p1.definition("pd");
    c2.createProperty("p-str", {Variant("a"), Variant(""), Variant("\xc3\xa4\xc3\xb6")}); c3.createProperty("p-bool", Variant(true)); s2.createProperty("p-u64", Variant(uint64_t(18446744073709551615ull)));
    Block b = f.createBlock("block A", "t"), b2 = f.createBlock("01234567-89ab-cdef-0123-456789abcdef", "t");
    b.metadata(s1); b.definition("bd");
    Source so = b.createSource("src", "t"), so2 = so.createSource("src", "t"), so3 = so2.createSource("leaf", "t"); so2.metadata(c1);
    DataArray a = b.createDataArray("arr", "t", DataType::Int16, NDSize{4, 3}); std::vector<int16_t> d(12); for (int i = 0; i < 12; i++) d[i] = i * 3 - 7; a.setData(DataType::Int16, d.data(), NDSize{4,3}, NDSize{0,0});
    a.label("lbl"); a.unit("mV"); a.expansionOrigin(0.5); a.polynomCoefficients({1.0, 2.0}); a.appendSampledDimension(0.1, "time", "ms", 0.25); a.appendSetDimension({"a", "b", "c"}); a.addSource(so); a.addSource(so3); a.metadata(c2);
    DataArray r = b.createDataArray("rng", "t", DataType::Double, NDSize{3}); std::vector<double> rv{1.0, 2.5, 7.0}; r.setData(rv); r.unit("s"); r.label("time"); r.appendAliasRangeDimension();
    DataArray st = b.createDataArray("strs", "t", DataType::String, NDSize{2}); std::vector<std::string> sv{"x", "yy"}; st.setData(sv); st.appendRangeDimension({0.5, 1.5}, "l", "s");
    std::vector<Column> cols = {{"c1", "mV", DataType::Int32}, {"c2", "", DataType::String}, {"c3", "s", DataType::Double}}; DataFrame df = b.createDataFrame("frame", "t", cols); df.rows(3);
    df.writeRow(0, {Variant(int32_t(1)), Variant("r0"), Variant(0.5)}); df.writeRow(1, {Variant(int32_t(2)), Variant("r1"), Variant(1.5)}); df.writeRow(2, {Variant(int32_t(3)), Variant("r2"), Variant(2.5)});
    DataArray fd = b.createDataArray("fdim", "t", DataType::Double, NDSize{3}); fd.appendDataFrameDimension(df, 1);
    Tag t = b.createTag("tag", "t", {0.3, 1.0}); t.extent({0.1, 1.0}); t.units({"ms", ""}); t.addReference(a); t.createFeature(r, LinkType::Untagged); t.createFeature(a, LinkType::Tagged); t.addSource(so2); t.metadata(s2);
    DataArray pos = b.createDataArray("pos", "t", DataType::Double, NDSize{2, 2}), ext = b.createDataArray("ext", "t", DataType::Double, NDSize{2, 2});
    MultiTag mt = b.createMultiTag("mtag", "t", pos); mt.extents(ext); mt.addReference(a); mt.createFeature(r, LinkType::Indexed); mt.units({"ms"});
    Group g = b.createGroup("grp", "t"); g.addDataArray(a); g.addDataArray(r); g.addTag(t); g.addMultiTag(mt); g.addDataFrame(df); g.addSource(so);
    b2.createDataArray("arr", "t", DataType::Bool, NDSize{2});
}
int main(int argc, char **argv) {
    std::string path = "/tmp/probe/p10.nix"; int which = argc > 1 ? atoi(argv[1]) : 0;
    Obs ob;
    File f = File::open(path, FileMode::Overwrite, "hdf5", which == 9 ? Compression::DeflateNormal : Compression::Auto);
    build(f);
    std::string s0 = ob.file(f);
    if (which == 0 || which == 9) {
        f.close();
        File g = File::open(path, FileMode::ReadOnly); std::string s1 = ob.file(g); g.close();
        File h = File::open(path, FileMode::ReadWrite); std::string s2 = ob.file(h); h.close();
        std::cout << "lines=" << std::count(s0.begin(), s0.end(), '\n') << " RO equal=" << (s0 == s1) << " RW equal=" << (s0 == s2) << "\n";
        std::ofstream("/tmp/probe/s0.txt") << s0; std::ofstream("/tmp/probe/s1.txt") << s1;
        std::cout << "exc markers in snapshot: " << (s0.find("<exc") != std::string::npos) << "\n";
    }
    if (which == 1) { // delete array 'arr' (heavily linked), compare
        Block b = f.getBlock("block A"); std::string id = b.getDataArray("arr").id();
        bool ok = b.deleteDataArray("arr"); std::string s1 = ob.file(f);
        std::ofstream("/tmp/probe/d0.txt") << s0; std::ofstream("/tmp/probe/d1.txt") << s1;
        std::cout << "deleted=" << ok << " id " << id << " still mentioned: " << (s1.find(id) != std::string::npos) << "\n";
    }
    if (which == 2) { // delete section subtree c1 (child) which is metadata of so2 and parent of c2 (metadata of arr, link target of s2)
        Section s1 = f.getSection("sec one"); Section c1 = s1.getSection("child"); std::string id1 = c1.id(), id2 = c1.getSection("child").id();
        bool ok = s1.deleteSection(c1); std::string sn = ob.file(f);
        std::ofstream("/tmp/probe/e0.txt") << s0; std::ofstream("/tmp/probe/e1.txt") << sn;
        std::cout << "deleted=" << ok << " mentions c1: " << (sn.find(id1) != std::string::npos) << " c2: " << (sn.find(id2) != std::string::npos) << " c1 valid=" << c1.isValidEntity() << "\n";
    }
    if (which == 3) { // delete source 'src' subtree
        Block b = f.getBlock("block A"); Source so = b.getSource("src"); Source leaf = so.getSource("src").getSource("leaf"); std::string ids[3] = {so.id(), so.getSource("src").id(), leaf.id()};
        bool ok = b.deleteSource("src"); std::string sn = ob.file(f); std::ofstream("/tmp/probe/g1.txt") << sn;
        std::cout << "deleted=" << ok; for (auto &i : ids) std::cout << " mention=" << (sn.find(i) != std::string::npos); std::cout << " leaf valid=" << leaf.isValidEntity() << "\n";
    }
    if (which == 4) { // delete frame used as dimension; delete pos of multitag
        Block b = f.getBlock("block A"); std::string id = b.getDataFrame("frame").id(), pid = b.getDataArray("pos").id();
        b.deleteDataFrame("frame"); b.deleteDataArray("pos"); std::string sn = ob.file(f); std::ofstream("/tmp/probe/h1.txt") << sn;
        std::cout << "frame mentioned=" << (sn.find(id) != std::string::npos) << " pos mentioned=" << (sn.find(pid) != std::string::npos) << "\n";
    }
    if (f.isOpen()) f.close();
}
