#include <nix.hpp>
#include <nix/hydra/multiArray.hpp>
#include <iostream>
#include <valarray>
#include <typeinfo>
using namespace nix;
#define CHECK(c) do { if (!(c)) { std::cout << "ANOMALY[" << tname << "] line " << __LINE__ << ": " #c << std::endl; anomalies++; } } while (0)
static int anomalies = 0;
template<typename T> void run(Block &b, const char *tname, ndsize_t big) {
    try {
    typedef boost::multi_array<T, 2> ma2;
    ma2 m(boost::extents[big][3]); T k = 1; for (size_t i = 0; i < big; i++) for (size_t j = 0; j < 3; j++) m[i][j] = static_cast<T>((i * 3 + j) % 100);
    DataArray a = b.createDataArray(std::string("ma_") + tname, "t", m);
    NDSize e = a.dataExtent(); CHECK(e.size() == 2 && e[0] == big && e[1] == 3);
    ma2 back; a.getData(back); CHECK(back.shape()[0] == big && back.shape()[1] == 3); bool eq = back.shape()[0] == big; if (eq) for (size_t i = 0; i < big && eq; i++) for (size_t j = 0; j < 3; j++) if (back[i][j] != m[i][j]) eq = false; CHECK(eq);
    // hyperslab with vector

    } catch (std::exception &ex) { std::cout << "EXC[" << tname << "] " << ex.what() << std::endl; }
    try {
    DataArray v = b.createDataArray(std::string("v_") + tname, "t", to_data_type<T>::value, NDSize{4, 6});
    std::vector<T> all(24); for (int i = 0; i < 24; i++) all[i] = static_cast<T>(i + 1); v.setData(to_data_type<T>::value, all.data(), NDSize{4, 6}, NDSize{0, 0});
    std::vector<T> part; v.getData(part, NDSize{1, 4}, NDSize{2, 1}); CHECK(part.size() == 4 && part[0] == static_cast<T>(14) && part[3] == static_cast<T>(17));
    std::vector<T> col; v.getData(col, NDSize{3, 1}, NDSize{1, 5}); CHECK(col.size() == 3 && col[0] == static_cast<T>(12) && col[2] == static_cast<T>(24));
    T sc = 0; v.getData(sc, NDSize{3, 5}); CHECK(sc == static_cast<T>(24));

    std::vector<double> asd; v.getData(asd, NDSize{1, 6}, NDSize{0, 0}); std::cout << "[" << tname << "] row0 after vector write at {0,4}: "; for (auto x : asd) std::cout << x << " "; std::cout << std::endl;
    std::valarray<T> va(6); for (int i = 0; i < 6; i++) va[i] = static_cast<T>(60 + i); DataArray o = b.createDataArray(std::string("va_") + tname, "t", va); std::valarray<T> vb; o.getData(vb); CHECK(vb.size() == 6 && vb[5] == static_cast<T>(65));
    T arr[4] = {static_cast<T>(1), static_cast<T>(2), static_cast<T>(3), static_cast<T>(4)}; DataArray ca = b.createDataArray(std::string("ca_") + tname, "t", arr); T arr2[4]; ca.getData(arr2); CHECK(arr2[3] == static_cast<T>(4));
    // calibration
    v.polynomCoefficients({1.0, 2.0}); v.expansionOrigin(1.0); std::vector<T> cal; v.getData(cal, NDSize{1, 3}, NDSize{1, 0}); /* stored 7,8,9 -> 1+2*(x-1) = 13,15,17 */ CHECK(cal.size() == 3 && cal[0] == static_cast<T>(13) && cal[2] == static_cast<T>(17));
    std::vector<T> raw(3); v.getDataDirect(to_data_type<T>::value, raw.data(), NDSize{1, 3}, NDSize{1, 0}); CHECK(raw[0] == static_cast<T>(7));
    v.polynomCoefficients(none); std::vector<T> org; v.getData(org, NDSize{1, 3}, NDSize{1, 0}); CHECK(org[0] == static_cast<T>(6)); // origin only: x-1
    v.expansionOrigin(none); v.getData(org, NDSize{1, 3}, NDSize{1, 0}); CHECK(org[0] == static_cast<T>(7));
    // append
    std::vector<T> app(6, static_cast<T>(99)); v.appendData(to_data_type<T>::value, app.data(), NDSize{1, 6}, 0); CHECK(v.dataExtent()[0] == 5); std::vector<T> last; v.getData(last, NDSize{1, 6}, NDSize{4, 0}); CHECK(last[5] == static_cast<T>(99));
    std::vector<T> appc(5, static_cast<T>(98)); v.appendData(to_data_type<T>::value, appc.data(), NDSize{5, 1}, 1); CHECK(v.dataExtent()[1] == 7); v.getData(last, NDSize{5, 1}, NDSize{0, 6}); CHECK(last.size() == 5 && last[4] == static_cast<T>(98));
    } catch (std::exception &ex) { std::cout << "EXC[" << tname << "] " << ex.what() << std::endl; }
}
int main() {
    File f = File::open("/tmp/probe/p17.nix", FileMode::Overwrite); Block b = f.createBlock("b", "t");
    run<int8_t>(b, "i8", 130); run<uint8_t>(b, "u8", 300); run<int16_t>(b, "i16", 130); run<uint16_t>(b, "u16", 130); run<int32_t>(b, "i32", 130); run<uint32_t>(b, "u32", 130); run<int64_t>(b, "i64", 130); run<uint64_t>(b, "u64", 130); run<float>(b, "f32", 130); run<double>(b, "f64", 130);
    std::cout << "anomalies=" << anomalies << std::endl; f.close();
}
