#include "obs.hpp"
#include <iostream>
static void build(File &f) {
    Section s1 = f.createSection("sec one", "t"), s2 = f.createSection("Sec One", "t2");
    Section c1 = s1.createSection("child", "t"), c2 = c1.createSection("child", "t"), c3 = c2.createSection("..", "t");
    s2.link(c2); s1.repository("http://x"); s1.definition("def");
    Property p1 = s1.createProperty("p-dbl", {Variant(1.5), Variant(-0.0), Variant(1e308)}); p1.unit("mV"); p1.uncertainty(0.25); p1.definition("pd");
    c2.createProperty("p-str", {Variant("a"), Variant(""), Variant("\xc3\xa4\xc3\xb6")}); c3.createProperty("p-bool", Variant(true)); s2.createProperty("p-u64", Variant(uint64_t(18446744073709551615ull)));
    Block b = f.createBlock("block A", "t"), b2 = f.createBlock("01234567-89ab-cdef-0123-456789abcdef", "t");
    b.metadata(s1); b.definition("bd");
    Source so = b.createSource("src", "t"), so2 = so.createSource("src", "t"), so3 = so2.createSource("leaf", "t"); so2.metadata(c1);
    DataArray a = b.createDataArray("arr", "t", DataType::Int16, NDSize{4, 3}); std::vector<int16_t> d(12); for (int i = 0; i < 12; i++) d[i] = i * 3 - 7; a.setData(DataType::Int16, d.data(), NDSize{4,3}, NDSize{0,0});
    a.label("lbl"); a.unit("mV"); a.expansionOrigin(0.5); a.polynomCoefficients({1.0, 2.0}); a.appendSampledDimension(0.1, "time", "ms", 0.25); a.appendSetDimension({"a", "b", "c"}); a.addSource(so); a.addSource(so3); a.metadata(c2);
    DataArray r = b.createDataArray("rng", "t", DataType::Double, NDSize{3}); std::vector<double> rv{1.0, 2.5, 7.0}; r.setData(rv); r.unit("s"); r.label("time"); r.appendAliasRangeDimension();
    DataArray st = b.createDataArray("strs", "t", DataType::String, NDSize{2}); std::vector<std::string> sv{"x", "yy"}; st.setData(sv); st.appendRangeDimension({0.5, 1.5}, "l", "s");
    std::vector<Column> cols = {{"c1", "mV", DataType::Int32}, {"c2", "", DataType::String}, {"c3", "s", DataType::Double}}; DataFrame df = b.createDataFrame("frame", "t", cols); df.rows(3);
    df.writeRow(0, {Variant(int32_t(1)), Variant("r0"), Variant(0.5)}); df.writeRow(1, {Variant(int32_t(2)), Variant("r1"), Variant(1.5)}); df.writeRow(2, {Variant(int32_t(3)), Variant("r2"), Variant(2.5)});
    DataArray fd = b.createDataArray("fdim", "t", DataType::Double, NDSize{3}); fd.appendDataFrameDimension(df, 1);
    Tag t = b.createTag("tag", "t", {0.3, 1.0}); t.extent({0.1, 1.0}); t.units({"ms", ""}); t.addReference(a); t.createFeature(r, LinkType::Untagged); t.createFeature(a, LinkType::Tagged); t.addSource(so2); t.metadata(s2);
    DataArray pos = b.createDataArray("pos", "t", DataType::Double, NDSize{2, 2}), ext = b.createDataArray("ext", "t", DataType::Double, NDSize{2, 2});
    MultiTag mt = b.createMultiTag("mtag", "t", pos); mt.extents(ext); mt.addReference(a); mt.createFeature(r, LinkType::Indexed); mt.units({"ms"});
    Group g = b.createGroup("grp", "t"); g.addDataArray(a); g.addDataArray(r); g.addTag(t); g.addMultiTag(mt); g.addDataFrame(df); g.addSource(so);
    b2.createDataArray("arr", "t", DataType::Bool, NDSize{2});
}

#define R(call) do { std::string before = ob.file(f); bool thrown = false; try { call; } catch (...) { thrown = true; } std::string after = ob.file(f); \
   if (!thrown) { std::cout << "accepted   " #call << std::endl; f.close(); f = File::open(path, FileMode::Overwrite); build(f); rebind(); } \
   else if (before != after) { std::cout << "TRACE LEFT " #call << std::endl; f.close(); f = File::open(path, FileMode::Overwrite); build(f); rebind(); } \
   else { clean++; } total++; } while (0)
int main() {
    std::string path = "/tmp/probe/p16.nix"; Obs ob; int total = 0, clean = 0;
    File f = File::open(path, FileMode::Overwrite); build(f);
    File f2 = File::open("/tmp/probe/p16b.nix", FileMode::Overwrite); Block ob2 = f2.createBlock("other", "t"); DataArray foreign = ob2.createDataArray("foreign", "t", DataType::Double, NDSize{2,2}); Section fsec = f2.createSection("fs", "t"); Source fsrc = ob2.createSource("fsrc", "t");
    std::vector<Column> fc = {{"c", "", DataType::Int32}}; DataFrame fdf = ob2.createDataFrame("fdf", "t", fc);
    Block b, b2; DataArray a, r, st, pos, ext, other_arr; Tag t; MultiTag mt; Group g; Source so; Section s1, s2, c1; Property p1; DataFrame df; Feature ft;
    auto rebind = [&]() { b = f.getBlock("block A"); b2 = f.getBlock(1); a = b.getDataArray("arr"); r = b.getDataArray("rng"); st = b.getDataArray("strs"); pos = b.getDataArray("pos"); ext = b.getDataArray("ext"); other_arr = b2.getDataArray("arr");
        t = b.getTag("tag"); mt = b.getMultiTag("mtag"); g = b.getGroup("grp"); so = b.getSource("src"); s1 = f.getSection("sec one"); s2 = f.getSection("Sec One"); c1 = s1.getSection("child"); p1 = s1.getProperty("p-dbl"); df = b.getDataFrame("frame"); ft = t.getFeature(0); };
    rebind();
    DataArray none_a; Section none_s; std::vector<double> v12(12, 1.0);
    // duplicates / invalid names / empty types
    R(f.createBlock("block A", "t")); R(f.createBlock("x/y", "t")); R(f.createBlock("", "t")); R(f.createBlock("nb", "")); R(f.createSection("sec one", "t")); R(f.createSection("ns", ""));
    R(b.createDataArray("arr", "t", DataType::Double, NDSize{1})); R(b.createDataArray("na", "", DataType::Double, NDSize{1})); R(b.createDataArray("n/a", "t", DataType::Double, NDSize{1})); R(b.createDataArray("nothing", "t", DataType::Nothing, NDSize{1})); R(b.createDataArray("opaque", "t", DataType::Char, NDSize{1})); R(b.createDataArray("rank0", "t", DataType::Double, NDSize{}));
    R(b.createTag("tag", "t", {1.0})); R(b.createTag("nt", "", {1.0})); R(b.createMultiTag("mtag", "t", pos)); R(b.createMultiTag("nm", "t", foreign)); R(b.createMultiTag("nm2", "t", other_arr)); R(b.createMultiTag("nm3", "t", none_a)); R(b.createMultiTag("nm4", "", pos));
    R(b.createGroup("grp", "t")); R(b.createGroup("ng", "")); R(b.createSource("src", "t")); R(so.createSource("src", "t")); R(so.createSource("x", ""));
    std::vector<Column> cols = {{"c1", "", DataType::Int32}}; std::vector<Column> dup = {{"c", "", DataType::Int32}, {"c", "", DataType::Double}}; std::vector<Column> badt = {{"c", "", DataType::Float}}; std::vector<Column> nocols;
    R(b.createDataFrame("frame", "t", cols)); R(b.createDataFrame("nf", "", cols)); R(b.createDataFrame("n/f", "t", cols)); R(b.createDataFrame("nf2", "t", dup)); R(b.createDataFrame("nf3", "t", badt)); R(b.createDataFrame("nf4", "t", nocols));
    R(s1.createSection("child", "t")); R(s1.createSection("x", "")); R(s1.createProperty("p-dbl", Variant(1.0))); R(s1.createProperty("bad/name", Variant(1.0))); R(s1.createProperty("mixed", {Variant(1.0), Variant("s")})); R(s1.createProperty("empty", std::vector<Variant>{}));
    // links to foreign / missing entities
    R(b.metadata(fsec)); R(b.metadata("00000000-0000-0000-0000-000000000000")); R(a.metadata(fsec)); R(s2.link(fsec)); R(s2.link("00000000-0000-0000-0000-000000000000")); R(a.addSource(fsrc)); R(a.addSource("00000000-0000-0000-0000-000000000000")); R(t.addReference(foreign)); R(t.addReference(other_arr)); R(t.addReference("nope")); R(t.createFeature(foreign, LinkType::Tagged)); R(t.createFeature(other_arr, LinkType::Tagged)); R(ft.data(foreign)); R(ft.data("nope"));
    R(mt.positions(foreign)); R(mt.positions("nope")); R(mt.extents(foreign)); R(mt.extents(a)); R(mt.extents("nope")); R(g.addDataArray(foreign)); R(g.addDataArray(other_arr)); R(g.addTag("nope")); R(a.appendDataFrameDimension(fdf, 0)); R(a.appendDataFrameDimension(df, 17)); R(a.appendDataFrameDimension(df, "nocol"));
    // shape / type mismatches
    R(a.appendData(DataType::Int16, v12.data(), NDSize{4, 7}, 0)); R(a.appendData(DataType::Int16, v12.data(), NDSize{4}, 0)); R(a.appendData(DataType::Int16, v12.data(), NDSize{1, 3}, 5)); R(a.dataExtent(NDSize{3})); R(a.setData(DataType::Double, v12.data(), NDSize{4, 3}, NDSize{3, 0})); R(a.setData(DataType::String, v12.data(), NDSize{0, 0}, NDSize{0, 0})); { std::vector<std::string> sv{"a"}; R(a.setData(sv, NDSize{0, 0})); } { std::vector<double> dv{1.0}; R(st.setData(dv, NDSize{0})); }
    R(p1.values({Variant("s")})); R(p1.values({Variant(1.0), Variant("s")})); R(p1.values({Variant(1.0), Variant(int32_t(1))}));
    R(df.writeRow(0, {Variant(int32_t(1))})); R(df.writeRow(9, {Variant(int32_t(1)), Variant("r"), Variant(0.5)})); R(df.writeRow(0, {Variant("x"), Variant("r"), Variant(0.5)})); R(df.writeCell(0, 9, Variant(1.0))); R(df.writeCell(0, 0, Variant("str"))); { std::vector<int32_t> cv{1, 2, 3, 4, 5, 6}; R(df.writeColumn("c1", cv)); R(df.writeColumn("nocol", cv, 0, 2)); R(df.writeColumn("c1", cv, 0, 9)); }
    // dimension arguments
    R(a.appendRangeDimension({3.0, 1.0})); R(a.appendRangeDimension({})); R(a.appendSampledDimension(0.0)); R(a.appendSampledDimension(-2.0)); R(a.appendSampledDimension(1.0, "l", "furlong")); R(a.appendRangeDimension({1.0, 2.0}, "l", "furlong")); R(a.appendAliasRangeDimension()); R(st.appendAliasRangeDimension());
    R(a.getDimension(1).asSampledDimension().samplingInterval(-1.0)); R(a.getDimension(1).asSampledDimension().unit("furlong")); R(a.getDimension(1).asSampledDimension().label("")); R(st.getDimension(1).asRangeDimension().ticks({2.0, 1.0})); R(st.getDimension(1).asRangeDimension().unit("furlong")); R(r.unit("furlong")); R(a.unit("")); R(a.label(""));
    // units / misc
    R(t.units({"furlong"})); R(mt.units({"s", "furlong"})); R(a.definition("")); R(b.type("")); R(s1.repository("")); R(p1.definition(""));
    // indices
    R(b.getDataArray(99)); R(t.getReference(99)); R(t.getFeature(99)); R(s1.getSection(99)); R(f.getBlock(99)); R(mt.getFeature(99)); R(b.getSource(99)); R(g.getDataArray(99));
    std::cout << "total=" << total << " clean rejections=" << clean << std::endl;
    f.close(); f2.close();
}
