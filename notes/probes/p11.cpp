#include <nix.hpp>
#include <nix/util/dataAccess.hpp>
#include <iostream>
#include <set>
using namespace nix;
#define CHECK(c) do { if (!(c)) std::cout << "ANOMALY line " << __LINE__ << ": " #c << std::endl; } while (0)
#define TRY(x) try { x; } catch (std::exception &e) { std::cout << "EXC line " << __LINE__ << " [" #x "] " << e.what() << std::endl; }
int main(int argc, char **argv) {
    std::string path = "/tmp/probe/p11.nix"; int which = argc > 1 ? atoi(argv[1]) : 0;
    File f = File::open(path, FileMode::Overwrite);
    if (which == 0) { // C03 order + lookup agreement, hostile names, interleaved delete, reopen
        std::vector<std::string> names = {"zeta", "Alpha", "alpha", "a b", "a  b", " a", "a ", "..", "\xc3\xa4", "a\xcc\x88", "01234567-89ab-cdef-0123-456789abcdef", std::string(300, 'x'), "%s", "q\"uote", "back\\slash", "tab\there"};
        Block b = f.createBlock("b", "t");
        std::vector<std::string> live;
        for (auto &n : names) { TRY(b.createDataArray(n, "t", DataType::Int8, NDSize{1})); live.push_back(n); }
        auto verify = [&](Block &blk, const char *when) {
            CHECK(blk.dataArrayCount() == live.size());
            std::vector<DataArray> v = blk.dataArrays(); CHECK(v.size() == live.size());
            for (size_t i = 0; i < live.size() && i < v.size(); i++) {
                DataArray byIdx = blk.getDataArray(i);
                if (byIdx.name() != live[i]) std::cout << "ORDER " << when << " idx " << i << " got '" << byIdx.name().substr(0,20) << "' want '" << live[i].substr(0,20) << "'" << std::endl;
                DataArray byName = blk.getDataArray(live[i]); CHECK(byName && byName.id() == byIdx.id());
                DataArray byId = blk.getDataArray(byIdx.id()); CHECK(byId && byId.name() == live[i]);
                CHECK(blk.hasDataArray(live[i])); CHECK(blk.hasDataArray(byIdx.id())); CHECK(blk.hasDataArray(byIdx));
                CHECK(v[i].id() == byIdx.id());
            }
        };
        verify(b, "initial");
        for (const char *d : {"alpha", "a b", "..", "zeta"}) { CHECK(b.deleteDataArray(d)); live.erase(std::find(live.begin(), live.end(), d)); CHECK(!b.hasDataArray(d)); CHECK(!b.getDataArray(d)); }
        verify(b, "after delete");
        TRY(b.createDataArray("alpha", "t", DataType::Int8, NDSize{1})); live.push_back("alpha");
        TRY(b.createDataArray("new", "t", DataType::Int8, NDSize{1})); live.push_back("new");
        verify(b, "after recreate");
        f.close(); f = File::open(path, FileMode::ReadWrite); b = f.getBlock("b");
        verify(b, "after reopen");
        // duplicate attempts
        for (auto &n : live) { bool thrown = false; try { b.createDataArray(n, "t", DataType::Int8, NDSize{1}); } catch (std::exception &) { thrown = true; } CHECK(thrown); }
        verify(b, "after dup attempts");
        std::cout << "C03 probe done, live=" << live.size() << std::endl;
    }
    if (which == 1) { // C20 conventions
        Section r1 = f.createSection("r1", "t"), r2 = f.createSection("r2", "t");
        Section a = r1.createSection("a", "t"), bb = r1.createSection("b", "t"), aa = a.createSection("aa", "t"), ab = a.createSection("ab", "t"), ba = bb.createSection("ba", "t"), aaa = aa.createSection("aaa", "t");
        auto names = [](const std::vector<Section> &v) { std::string s; for (auto &x : v) s += x.name() + " "; return s; };
        std::cout << "r1.find(default): " << names(r1.findSections()) << "\n r1.find(d=1): " << names(r1.findSections(util::AcceptAll<Section>(), 1)) << "\n r1.find(d=2): " << names(r1.findSections(util::AcceptAll<Section>(), 2)) << "\n file.find(d=1): " << names(f.findSections(util::AcceptAll<Section>(), 1)) << "\n file.find(d=2): " << names(f.findSections(util::AcceptAll<Section>(), 2)) << "\n file.find(): " << names(f.findSections()) << std::endl;
        Block b = f.createBlock("b", "t"); Source s1 = b.createSource("s1", "t"), s2 = b.createSource("s2", "t"), s11 = s1.createSource("s11", "t"), s12 = s1.createSource("s12", "t"), s111 = s11.createSource("s111", "t");
        auto sn = [](const std::vector<Source> &v) { std::string s; for (auto &x : v) s += x.name() + " "; return s; };
        std::cout << "s1.find(): " << sn(s1.findSources()) << "\n s1.find(d=0): " << sn(s1.findSources(util::AcceptAll<Source>(), 0)) << "\n s1.find(d=1): " << sn(s1.findSources(util::AcceptAll<Source>(), 1)) << "\n b.find(d=0): " << sn(b.findSources(util::AcceptAll<Source>(), 0)) << "\n b.find(): " << sn(b.findSources()) << std::endl;
        std::cout << "parent(s111)=" << s111.parentSource().name() << " parent(s1)=" << (bool)s1.parentSource() << std::endl;
        DataArray da = b.createDataArray("da", "t", DataType::Int8, NDSize{1}); da.addSource(s111); da.metadata(aaa); b.metadata(aaa); s11.metadata(aaa);
        std::cout << "referring arrays(s111)=" << s111.referringDataArrays().size() << " aaa.refArrays=" << aaa.referringDataArrays().size() << " aaa.refBlocks=" << aaa.referringBlocks().size() << " aaa.refSources=" << aaa.referringSources().size() << std::endl;
        aa.createProperty("p", Variant(1.0)); aa.createProperty("q", Variant(2.0)); ab.createProperty("p", Variant(3.0)); ab.createProperty("r", Variant(4.0)); ab.link(aa);
        std::string ip; for (auto &p : ab.inheritedProperties()) ip += p.name() + "=" + std::to_string(p.values()[0].get<double>()) + " "; std::cout << "inherited(ab)=" << ip << std::endl;
    }
    if (which == 2) { // C13 alias + dims
        Block b = f.createBlock("b", "t");
        DataArray a = b.createDataArray("a", "t", DataType::Int32, NDSize{3}); std::vector<int32_t> d{1, 5, 9}; a.setData(d); a.unit("ms"); a.label("t");
        RangeDimension rd = a.appendAliasRangeDimension();
        CHECK(rd.alias()); auto tk = rd.ticks(); CHECK(tk.size() == 3 && tk[2] == 9.0); CHECK(rd.unit() && *rd.unit() == "ms"); CHECK(rd.label() && *rd.label() == "t");
        TRY(rd.ticks({2.0, 4.0, 6.0, 8.0})); std::vector<int32_t> r; a.getData(r); CHECK(r.size() == 4 && r[3] == 8); TRY(rd.unit("s")); CHECK(a.unit() && *a.unit() == "s"); TRY(rd.label("L")); CHECK(a.label() && *a.label() == "L");
        a.label("M"); CHECK(*a.getDimension(1).asRangeDimension().label() == "M");
        TRY(rd.ticks({3.0, 1.0})); TRY(rd.ticks({1.5, 2.5})); a.getData(r); std::cout << "alias after fractional ticks into Int32: " << r[0] << "," << r[1] << " ticks=" << rd.ticks()[0] << std::endl;
        CHECK(a.dimensionCount() == 1); TRY(a.appendSetDimension()); std::cout << "dims after append on alias array: " << a.dimensionCount() << std::endl;
        a.deleteDimensions(); CHECK(a.dimensionCount() == 0); CHECK(!a.getDimension(1));
        DataArray m = b.createDataArray("m", "t", DataType::Double, NDSize{2, 3, 4});
        m.appendSetDimension(); m.appendRangeDimension({1, 2, 3}, "x", "mV"); m.appendSampledDimension(0.5, "y", "s", 2.0);
        for (ndsize_t i = 1; i <= 3; i++) CHECK(m.getDimension(i).index() == i);
        f.close(); f = File::open(path, FileMode::ReadOnly); m = f.getBlock("b").getDataArray("m"); CHECK(m.dimensionCount() == 3); CHECK(m.getDimension(3).asSampledDimension().offset() && *m.getDimension(3).asSampledDimension().offset() == 2.0);
        std::cout << "C13 probe done" << std::endl;
    }
    if (which == 3) { // C15 cross path
        Block b = f.createBlock("b", "t");
        std::vector<Column> cols = {{"i", "", DataType::Int32}, {"u", "", DataType::UInt64}, {"d", "s", DataType::Double}, {"s", "", DataType::String}, {"b", "", DataType::Bool}, {"l", "", DataType::Int64}, {"w", "", DataType::UInt32}};
        DataFrame df = b.createDataFrame("df", "t", cols); df.rows(4);
        for (int r = 0; r < 4; r++) df.writeRow(r, {Variant(int32_t(-r)), Variant(uint64_t(1) << (60 + r % 4)), Variant(r * 0.1), Variant(std::string("s") + std::to_string(r)), Variant(r % 2 == 0), Variant(int64_t(-1) << (40 + r)), Variant(uint32_t(4000000000u + r))});
        df.writeCell(2, 3, Variant("cell")); df.writeCells(1, {Cell("d", 9.5), Cell("b", true)});
        std::vector<int32_t> ci{10, 11}; df.writeColumn("i", ci, 1, 2);
        std::vector<std::string> sc; df.readColumn("s", sc, true); std::vector<double> dc; df.readColumn(2, dc, true, 1); std::vector<int32_t> ic(4); df.readColumn("i", ic);
        std::cout << "col s: "; for (auto &x : sc) std::cout << x << ","; std::cout << " col d(from1): "; for (auto x : dc) std::cout << x << ","; std::cout << " col i: "; for (auto x : ic) std::cout << x << ","; std::cout << std::endl;
        for (int r = 0; r < 4; r++) { auto row = df.readRow(r); std::cout << "row" << r << ":"; for (auto &v : row) std::cout << v << " "; std::cout << std::endl; }
        Cell c = df.readCell(2, 3); std::cout << "cell(2,3)=" << c << " name=" << c.name << std::endl;
        df.rows(2); df.rows(5); auto row = df.readRow(3); std::cout << "regrown row3:"; for (auto &v : row) std::cout << v << " "; std::cout << std::endl;
    }
    if (which == 4) { // C19 conforming file
        Section s = f.createSection("s", "t"); Property p = s.createProperty("p", Variant(1.0)); p.unit("mV");
        for (int k = 0; k < 2; k++) {
            Block b = f.createBlock("b" + std::to_string(k), "t");
            DataArray a = b.createDataArray("a", "t", DataType::Double, NDSize{5, 3, 2}); a.unit("mV"); a.appendSampledDimension(0.1, "t", "s"); a.appendRangeDimension({1, 2, 3}, "x", "ms"); a.appendSetDimension({"l", "r"});
            DataArray pos = b.createDataArray("pos", "t", DataType::Double, NDSize{2, 3}); pos.appendSetDimension(); pos.appendSetDimension(); DataArray ext = b.createDataArray("ext", "t", DataType::Double, NDSize{2, 3}); ext.appendSetDimension(); ext.appendSetDimension();
            Tag t = b.createTag("t", "t", {0.1, 1.0, 0.0}); t.extent({0.2, 1.0, 1.0}); t.units({"ms", "s", ""}); t.addReference(a); t.createFeature(pos, LinkType::Untagged);
            MultiTag mt = b.createMultiTag("mt", "t", pos); mt.extents(ext); mt.addReference(a); mt.units({"s", "ms", ""}); mt.createFeature(ext, LinkType::Indexed);
            Source so = b.createSource("so", "t"); so.createSource("c", "t"); Group g = b.createGroup("g", "t"); g.addDataArray(a);
        }
        auto r = f.validate(); std::cout << "conforming: errors=" << r.getErrors().size() << " warnings=" << r.getWarnings().size() << std::endl; for (auto &m : r.getErrors()) std::cout << " E[" << m.id << "] " << m.msg << std::endl; for (auto &m : r.getWarnings()) std::cout << " W[" << m.id << "] " << m.msg << std::endl;
    }
    if (f.isOpen()) f.close();
}
