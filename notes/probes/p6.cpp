#include <nix.hpp>
#include <nix/util/dataAccess.hpp>
#include <nix/NDArray.hpp>
#include <iostream>
#include <cmath>
#include <limits>
using namespace nix;
#define TRY(x) try { x; std::cout << "ok[" #x "]" << std::endl; } catch (std::exception &e) { std::cout << "EXC[" #x "] " << e.what() << std::endl; } catch (...) { std::cout << "EXC-unknown[" #x "]" << std::endl; }
int main(int argc, char**argv) {
    int which = argc > 1 ? atoi(argv[1]) : 0;
    File f = File::open("/tmp/probe/p6.nix", FileMode::Overwrite);
    Block b = f.createBlock("b", "t");
    DataArray a = b.createDataArray("d", "t", DataType::Double, NDSize{5, 4});
    a.appendSampledDimension(0.1, "time", "s"); a.appendSetDimension({"a","b","c","d"});
    double inf = std::numeric_limits<double>::infinity(), nan = std::nan("");
    switch (which) {
    case 0: { Tag t = b.createTag("t", "t", {1e300, 0}); t.addReference(a); TRY(t.taggedData(0)); break; }
    case 1: { Tag t = b.createTag("t", "t", {nan, 0}); t.addReference(a); TRY(t.taggedData(0)); break; }
    case 2: { Tag t = b.createTag("t", "t", {-inf, 0}); t.extent({inf, 1}); t.addReference(a); TRY(t.taggedData(0)); break; }
    case 3: { std::vector<double> r; TRY(a.getData(r, NDSize{2}, NDSize{0})); TRY(a.getData(r, NDSize{2,1}, NDSize{4,3})); TRY(a.getData(r, NDSize{1,1}, NDSize{(ndsize_t)-1, 0})); TRY(a.getData(r, NDSize{}, NDSize{})); break; }
    case 4: { TRY(a.dataExtent(NDSize{3})); TRY(a.dataExtent(NDSize{})); TRY(a.dataExtent(NDSize{0,0})); std::vector<double> r; TRY(a.getData(r)); TRY(a.appendData(DataType::Double, nullptr, NDSize{0,0}, 0)); break; }
    case 5: { NDArray n(DataType::Double, NDSize{2,2}); TRY(std::cout << n.get<double>(100) << "\n"); break; }
    case 6: { Tag t = b.createTag("t", "t", {}); t.addReference(a); TRY(t.taggedData(0)); MultiTag mt; TRY(mt.positions()); DataArray none_a; TRY(none_a.dataExtent()); TRY(b.createMultiTag("m","t", none_a)); TRY(t.addReference(none_a)); TRY(util::taggedData(t, none_a)); break; }
    case 7: { DataArray p = b.createDataArray("p", "t", DataType::Double, NDSize{3, 2}); MultiTag mt = b.createMultiTag("m", "t", p); mt.addReference(a); std::vector<ndsize_t> idx; TRY(util::taggedData(mt, idx, a)); idx = {0, 5}; TRY(util::taggedData(mt, idx, a)); DataArray p0 = b.createDataArray("p0", "t", DataType::Double, NDSize{0, 2}); MultiTag m0 = b.createMultiTag("m0", "t", p0); m0.addReference(a); idx.clear(); TRY(util::taggedData(m0, idx, a)); break; }
    case 8: { DataArray s = b.createDataArray("s", "t", DataType::String, NDSize{2}); std::vector<std::string> v{"a","b"}; s.setData(v); s.polynomCoefficients({1.0, 2.0}); std::vector<std::string> r; TRY(s.getData(r)); std::vector<double> rd; TRY(s.getData(rd)); break; }
    case 9: { SampledDimension sd = a.getDimension(1).asSampledDimension(); TRY(std::cout << sd.axis(3, (ndsize_t)-1)[0] << "\n"); TRY(sd.axis((ndsize_t)1 << 40)); RangeDimension rd = b.createDataArray("r","t",DataType::Double,NDSize{3}).appendRangeDimension({1,2,3}); TRY(rd.tickAt(3)); TRY(rd.ticks((ndsize_t)-1, 2)); TRY(rd.axis(2, 2)); break; }
    case 10: { Dimension d = a.getDimension(3); TRY(d.dimensionType()); TRY(a.getDimension(0)); SetDimension sd; TRY(sd = a.getDimension(1)); TRY(a.getDimension(1).asSetDimension()); break; }
    case 11: { std::vector<Column> cols; TRY(b.createDataFrame("df0", "t", cols)); std::vector<Column> c2 = {{"a","",DataType::Int32},{"b","",DataType::String}}; DataFrame df = b.createDataFrame("df", "t", c2); TRY(df.readRow(0)); df.rows(2); TRY(df.writeRow(0, {Variant(int32_t(1))})); TRY(df.writeRow(0, {Variant(int32_t(1)), Variant("x"), Variant(2.0)})); TRY(df.writeRow(5, {Variant(int32_t(1)), Variant("x")})); TRY(df.colName(7)); TRY(df.readCell(0, 9)); TRY(df.writeCell(0, 9, Variant(1.0))); TRY(df.writeCell(0, 0, Variant("str"))); std::vector<double> dv; TRY(df.readColumn("b", dv, true)); break; }
    }
    f.close();
}
