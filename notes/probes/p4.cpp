#include <nix.hpp>
#include <nix/util/dataAccess.hpp>
#include <iostream>
#include <cmath>
using namespace nix;
#define TRY(x) try { x; } catch (std::exception &e) { std::cout << "EXC[" #x "] " << e.what() << "\n"; } catch (...) { std::cout << "EXC-unknown[" #x "]\n"; }
int main(int argc, char**argv) {
    int which = argc > 1 ? atoi(argv[1]) : 0;
    File f = File::open("/tmp/probe/p4.nix", FileMode::Overwrite);
    Block b = f.createBlock("b", "t");
    if (which == 0) {
        DataArray a = b.createDataArray("d", "t", DataType::Double, NDSize{10});
        SampledDimension sd = a.appendSampledDimension(0.1, "time", "s");
        int bad[5] = {0,0,0,0,0}; PositionMatch ms[5] = {PositionMatch::Equal, PositionMatch::Less, PositionMatch::Greater, PositionMatch::GreaterOrEqual, PositionMatch::LessOrEqual};
        for (ndsize_t i = 0; i < 100; i++) {
            double p = sd.positionAt(i);
            for (int m = 0; m < 5; m++) {
                auto r = sd.indexOf(p, ms[m]);
                long exp = (m==1) ? (long)i-1 : (m==2) ? (long)i+1 : (long)i;
                long got = r ? (long)*r : -1;
                if (got != exp) bad[m]++;
            }
        }
        std::cout << "bad Eq/L/G/GE/LE: " << bad[0] << " " << bad[1] << " " << bad[2] << " " << bad[3] << " " << bad[4] << "\n";
    }
    if (which == 1) {
        TRY(std::cout << "has . " << f.hasBlock(".") << "\n");
        TRY({Block x = f.getBlock("."); std::cout << "get . " << (bool)x << "\n"; std::cout << x.name() << "\n";});
        TRY(f.createBlock(".", "t"));
        TRY({Block x = f.createBlock("..", "t"); std::cout << "created .. " << x.name() << " count " << f.blockCount() << "\n";});
        std::string uu = "01234567-89ab-cdef-0123-456789abcdef";
        DataArray a = b.createDataArray(uu, "t", DataType::Double, NDSize{3});
        std::cout << "has by name " << b.hasDataArray(uu) << " by id " << b.hasDataArray(a.id()) << " get(name).id==id " << (b.getDataArray(uu).id() == a.id()) << "\n";
        Tag t = b.createTag("tg", "t", {1.0});
        t.addReference(a);
        std::cout << "refcount " << t.referenceCount() << " hasRef(handle) " << t.hasReference(a) << " hasRef(id) " << t.hasReference(a.id()) << " hasRef(name) " << t.hasReference(uu) << "\n";
        TRY(b.createDataArray(a.id(), "t", DataType::Double, NDSize{3}));
        std::cout << "get(a.id).name = " << b.getDataArray(a.id()).name() << " (a.name=" << a.name() << ")\n";
    }
    if (which == 2) {
        DataArray a = b.createDataArray("d", "t", DataType::Double, NDSize{10});
        SampledDimension sd = a.appendSampledDimension(0.1, "time", "s");
        Section s = f.createSection("s", "t"); Property p = s.createProperty("p", Variant(1.0));
        Tag t = b.createTag("tg", "t", {1.0}); t.addReference(a);
        DataView v(a, NDSize{3}, NDSize{1});
        f.close();
        TRY(std::cout << b.name() << "\n");
        TRY(std::cout << a.dataExtent() << "\n");
        TRY(std::cout << sd.samplingInterval() << "\n");
        TRY(std::cout << p.valueCount() << "\n");
        TRY(std::cout << t.referenceCount() << "\n");
        TRY({std::vector<double> r; v.getData(r); std::cout << r.size() << "\n";});
        TRY(b.createDataArray("x", "t", DataType::Double, NDSize{1}));
        TRY(std::cout << "isopen " << f.isOpen() << "\n");
        TRY({File g = File::open("/tmp/probe/p4.nix", FileMode::Overwrite); std::cout << "reopen overwrite ok\n"; g.close();});
        return 0;
    }
    f.close();
}
