#include <nix.hpp>
#include <iostream>
#include <cmath>
#include <random>
using namespace nix;
// brute-force oracle on axis x_i = fl(i*dt+off)
static long oracle(double p, double dt, double off, PositionMatch m, long cap) {
    auto x = [&](long i){ return (double)i * dt + off; };
    // find k = largest i>=0 with x_i <= p  (or -1)
    long k = -1;
    if (x(0) <= p) { long lo = 0, hi = cap; while (lo < hi) { long mid = lo + (hi - lo + 1) / 2; if (x(mid) <= p) lo = mid; else hi = mid - 1; } k = lo; }
    bool eq = k >= 0 && x(k) == p;
    switch (m) {
    case PositionMatch::LessOrEqual: return k;
    case PositionMatch::Less: return eq ? k - 1 : k;
    case PositionMatch::GreaterOrEqual: return eq ? k : k + 1;
    case PositionMatch::Greater: return k + 1;
    case PositionMatch::Equal: return eq ? k : -1;
    }
    return -1;
}
int main() {
    File f = File::open("/tmp/probe/p8.nix", FileMode::Overwrite);
    Block b = f.createBlock("b", "t");
    DataArray a = b.createDataArray("d", "t", DataType::Double, NDSize{10});
    SampledDimension sd = a.appendSampledDimension(1.0);
    std::mt19937_64 rng(5);
    double dts[] = {1.0, 0.1, 0.001, 1.0/3, 0.25, 2.5e-5, 1e3, 0.7, 3.3e-7};
    double offs[] = {0.0, 0.1, -0.1, 1.0/3, -1.0/3, 1e6+0.1, -17.25};
    PositionMatch ms[5] = {PositionMatch::Equal, PositionMatch::Less, PositionMatch::Greater, PositionMatch::GreaterOrEqual, PositionMatch::LessOrEqual};
    const char* mn[5] = {"Eq","L","G","GE","LE"};
    long total = 0, bad = 0; long badby[5] = {0,0,0,0,0};
    for (double dt : dts) for (double off : offs) {
        for (int n = 0; n < 400; n++) {
            long i = (n < 100) ? n : (long)(rng() % 10000);
            double xi = (double)i * dt + off;
            double ps[] = {xi, std::nextafter(xi, INFINITY), std::nextafter(xi, -INFINITY), xi + dt * 0.5, xi - dt * 0.37, off - dt * 3.0, off - 1e-9};
            for (double p : ps) for (int m = 0; m < 5; m++) {
                auto r = sd.indexOf(p, p, dt, off, RangeMatch::Inclusive); (void)r;
                // use the parameterised overload path: getSampledIndex is reached via indexOf(start,end,dt,off,match): GE(start), LE(end)
                long eGE = oracle(p, dt, off, PositionMatch::GreaterOrEqual, 20000);
                long eLE = oracle(p, dt, off, PositionMatch::LessOrEqual, 20000);
                bool expect_valid = eLE >= 0 && eGE <= eLE;
                bool got_valid = (bool)r;
                total++;
                if (expect_valid != got_valid || (got_valid && ((long)r->first != eGE || (long)r->second != eLE))) { bad++; badby[m]++; if (bad < 6) std::cout << "BAD dt=" << dt << " off=" << off << " p=" << p << " exp(" << eGE << "," << eLE << ") got " << (got_valid ? std::to_string(r->first)+","+std::to_string(r->second) : "none") << "\n"; }
                break; // match loop irrelevant for this overload
            }
        }
    }
    std::cout << "pair checks total=" << total << " bad=" << bad << "\n";
    // scalar API with stored interval/offset
    total = 0; bad = 0;
    for (double dt : dts) for (double off : offs) {
        sd.samplingInterval(dt); sd.offset(off);
        for (int n = 0; n < 60; n++) {
            long i = (n < 30) ? n : (long)(rng() % 10000);
            double xi = sd.positionAt(i);
            double ps[] = {xi, std::nextafter(xi, INFINITY), std::nextafter(xi, -INFINITY), xi + dt * 0.5, off - dt * 3.0};
            for (double p : ps) for (int m = 0; m < 5; m++) {
                auto r = sd.indexOf(p, ms[m]);
                long e = oracle(p, dt, off, ms[m], 20000);
                long g = r ? (long)*r : -1;
                total++;
                if (e != g) { bad++; badby[m]++; if (bad < 6) std::cout << "BAD scalar dt=" << dt << " off=" << off << " p=" << p << " " << mn[m] << " exp " << e << " got " << g << "\n"; }
            }
        }
    }
    std::cout << "scalar checks total=" << total << " bad=" << bad << " by Eq/L/G/GE/LE " << badby[0] << " " << badby[1] << " " << badby[2] << " " << badby[3] << " " << badby[4] << "\n";
    f.close();
}
