// throw-away: validate the DESIGN §2.4 box oracle for Tag retrieval against the library
#include <nix.hpp>
#include <nix/util/dataAccess.hpp>
#include <iostream>
#include <random>
#include <map>
#include <cmath>
using namespace nix;
struct Axis { int kind; double dt, off; std::vector<double> ticks; long nlabels; long n; // kind 0 sampled 1 range 2 set
  double x(long i) const { return kind == 0 ? (double)i * dt + off : kind == 1 ? ticks[i] : (double)i; }
  long bound() const { return kind == 0 ? 1000000 : kind == 1 ? (long)ticks.size() : (nlabels > 0 ? nlabels : 1000000); } };
static long idxLE(const Axis &a, double p, bool strict) { // max i: x_i <= p (or < p)
  long lo = -1, hi = a.bound() - 1; if (hi < 0) return -1; auto ok = [&](long i){ return strict ? a.x(i) < p : a.x(i) <= p; };
  if (!ok(0)) return -1; lo = 0; while (lo < hi) { long m = lo + (hi - lo + 1) / 2; if (ok(m)) lo = m; else hi = m - 1; } return lo; }
static long idxGE(const Axis &a, double p) { long k = idxLE(a, p, true); long r = k + 1; return r < a.bound() ? r : -1; }
int main(int argc, char **argv) {
  unsigned seed = argc > 1 ? atoi(argv[1]) : 1; std::mt19937_64 rng(seed);
  auto U = [&](int n) { return (int)(rng() % n); };
  File f = File::open("/tmp/probe/p12.nix", FileMode::Overwrite); Block b = f.createBlock("b", "t");
  std::map<std::string, int> bad; long judged = 0, oob_exp = 0, ok_exp = 0;
  for (int arr = 0; arr < 60; arr++) {
    int rank = 1 + U(3); NDSize shape(rank); std::vector<Axis> ax(rank);
    for (int d = 0; d < rank; d++) shape[d] = 2 + U(7);
    DataArray a = b.createDataArray("a" + std::to_string(arr), "t", DataType::Double, shape);
    size_t n = shape.nelms(); std::vector<double> lin(n); for (size_t i = 0; i < n; i++) lin[i] = (double)i; a.setData(DataType::Double, lin.data(), shape, NDSize(rank, 0));
    double dts[] = {1.0, 0.1, 0.25, 1.0/3, 0.001, 2.5}; double offs[] = {0.0, 0.0, 0.1, -0.5, 1.0/3};
    for (int d = 0; d < rank; d++) { Axis &A = ax[d]; A.kind = U(3); A.n = shape[d]; A.nlabels = 0;
      if (A.kind == 0) { A.dt = dts[U(6)]; A.off = offs[U(5)]; auto sd = a.appendSampledDimension(A.dt); if (A.off != 0.0) sd.offset(A.off); }
      else if (A.kind == 1) { double t = -1.0 + U(3); for (long i = 0; i < A.n; i++) { A.ticks.push_back(t); t += 0.1 + U(20) * 0.05; } a.appendRangeDimension(A.ticks); }
      else { if (U(2)) { std::vector<std::string> l; for (long i = 0; i < A.n; i++) l.push_back("l" + std::to_string(i)); a.appendSetDimension(l); A.nlabels = A.n; } else a.appendSetDimension(); } }
    for (int t = 0; t < 6; t++) {
      int N = 1 + U(5); int D = rank; bool has_ext = U(3) != 0; bool oneD = (rank == 1 && U(2));
      NDSize pshape = oneD ? NDSize{(ndsize_t)N} : NDSize{(ndsize_t)N, (ndsize_t)D};
      std::vector<double> pos(N * D), ext(N * D);
      for (int r = 0; r < N; r++) for (int d = 0; d < D; d++) { const Axis &A = ax[d]; long i = U((int)A.n + 2) - 1; long j = i + U(4);
        auto coord = [&](long k) { return A.kind == 0 ? (double)k * A.dt + A.off : A.kind == 2 ? (double)k : (k >= 0 && k < (long)A.ticks.size() ? A.ticks[k] : (k < 0 ? A.ticks.front() - 1.0 + k : A.ticks.back() + 1.0 + k)); };
        int cls = U(4); double p = coord(i), q = coord(j);
        if (cls == 1) { p += 0.4 * (coord(i + 1) - coord(i)); } else if (cls == 2) { p = std::nextafter(p, INFINITY); } else if (cls == 3) { q += 0.4 * (coord(j + 1) - coord(j)); }
        pos[r * D + d] = p; ext[r * D + d] = U(6) == 0 ? 0.0 : (U(10) == 0 ? -(q - p) - 0.5 : q - p); }
      std::string nm = std::to_string(arr) + "_" + std::to_string(t);
      DataArray pa = b.createDataArray("p" + nm, "t", DataType::Double, pshape); pa.setData(DataType::Double, pos.data(), pshape, NDSize(pshape.size(), 0));
      MultiTag mt = b.createMultiTag("m" + nm, "t", pa);
      if (has_ext) { DataArray ea = b.createDataArray("e" + nm, "t", DataType::Double, pshape); ea.setData(DataType::Double, ext.data(), pshape, NDSize(pshape.size(), 0)); mt.extents(ea); }
      mt.addReference(a);
      for (RangeMatch m : {RangeMatch::Inclusive, RangeMatch::Exclusive}) for (int r = 0; r <= N; r++) {
        bool expOOB = false; std::vector<long> lo(rank), hi(rank);
        if (r == N) expOOB = true; else
        for (int d = 0; d < rank; d++) { const Axis &A = ax[d];
          double p = pos[r * D + d]; double e = has_ext ? ext[r * D + d] : 0.0;
          if (!has_ext || e == 0.0) { long k = idxGE(A, p); if (k < 0) { expOOB = true; break; } lo[d] = hi[d] = k; }
          else { double end = p + e; if (end < p) { expOOB = true; break; } long l = idxGE(A, p); long h = idxLE(A, end, m == RangeMatch::Exclusive); if (l < 0 || h < 0 || l > h) { expOOB = true; break; } lo[d] = l; hi[d] = h; }
          if (hi[d] >= A.n) { expOOB = true; break; } }
        bool gotOOB = false; std::string other; NDSize ge; std::vector<double> got;
        try { DataView v = util::taggedData(mt, (ndsize_t)r, a, m); ge = v.dataExtent(); got.resize(ge.nelms()); v.getData(DataType::Double, got.data(), ge, NDSize(rank, 0)); }
        catch (nix::OutOfBounds &) { gotOOB = true; } catch (std::exception &e) { other = e.what(); }
        judged++; (expOOB ? oob_exp : ok_exp)++;
        std::string cls = std::string(m == RangeMatch::Inclusive ? "incl" : "excl") + (r == N ? "/index-past-end" : "") + (has_ext ? "/ext" : "/noext") + (oneD ? "/1d" : "/nd");
        if (!other.empty()) { bad["other-exc/" + cls + "/" + other.substr(0, 40)]++; continue; }
        if (expOOB != gotOOB) { bad[std::string(expOOB ? "expected-OOB-got-view/" : "expected-view-got-OOB/") + cls]++; continue; }
        if (expOOB) continue;
        std::vector<double> want; std::function<void(int, long)> rec = [&](int d, long base) { if (d == rank) { want.push_back((double)base); return; } long stride = 1; for (int k = d + 1; k < rank; k++) stride *= (long)shape[k]; for (long i = lo[d]; i <= hi[d]; i++) rec(d + 1, base + i * stride); }; rec(0, 0);
        if (want != got) bad["wrong-elements/" + cls]++;
      }
    }
  }
  std::cout << "judged=" << judged << " expected views=" << ok_exp << " expected OOB=" << oob_exp << "\n"; for (auto &kv : bad) std::cout << "  " << kv.second << "  " << kv.first << "\n";
  f.close();
}
