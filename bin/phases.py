# Property-specific phases run by bin/check in addition to the generated workload, and the canary.
import json, os, re, subprocess, sys, time
import vlib
from vlib import VERIF, REPO, log


def canary(binary):
    """Prove that libnixio of the san flavor is instrumented: the canary function inside the library
    must produce an ASan report (heap overflow), and two UBSan reports (signed overflow, null memcpy)."""
    env = vlib.san_env()
    want = {1: "heap-buffer-overflow", 2: "signed integer overflow", 3: "null pointer passed as argument"}
    seen = {}
    for k, needle in want.items():
        r = subprocess.run([binary, "--canary", str(k)], env=env, stdout=subprocess.PIPE, stderr=subprocess.PIPE, text=True)
        seen[needle] = needle in r.stderr
    return {"ok": all(seen.values()), "reports": seen}


def replay(run, bins, rp):
    fn = globals().get("replay_" + rp["phase"])
    if not fn:
        print("no replay for phase", rp["phase"])
        return 2
    return fn(run, bins, rp)
