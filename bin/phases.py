# Property-specific phases run by bin/check in addition to the generated workload, and the canary.
import json, os, re, subprocess, sys, time
import vlib
from vlib import VERIF, REPO, log


def canary(binary):
    """Prove that libnixio of the san flavor is instrumented: the canary function inside the library
    must produce an ASan report (heap overflow), and two UBSan reports (signed overflow, null memcpy)."""
    env = vlib.san_env()
    want = {1: "heap-buffer-overflow", 2: "signed integer overflow", 3: "null pointer passed as argument"}
    seen = {}
    for k, needle in want.items():
        r = subprocess.run([binary, "--canary", str(k)], env=env, stdout=subprocess.PIPE, stderr=subprocess.PIPE, text=True)
        seen[needle] = needle in r.stderr
    return {"ok": all(seen.values()), "reports": seen}


def replay(run, bins, rp):
    fn = globals().get("replay_" + rp["phase"])
    if not fn:
        print("no replay for phase", rp["phase"])
        return 2
    return fn(run, bins, rp)


def strace_ro(run, bins, ph):
    """C09 thorough: run ReadOnly-session cases of the rel flavor under strace and require that between the
    ro-begin / ro-end markers the file under test is only ever opened O_RDONLY and that no write-family
    syscall is issued on one of its descriptors."""
    import tempfile, shutil
    binary = bins.get("rel") or vlib.build(["rel"])["rel"]
    n = ph.get("cases", 12)
    sessions = 0
    for i in range(n):
        case = (i // 2) * 8 + (i % 2) * 3          # case indices of the ReadOnly families (index % 8 in {0, 3})
        d = tempfile.mkdtemp(prefix="nixverif-strace-")
        log = os.path.join(d, "strace.log")
        cmd = ["strace", "-f", "-qq", "-e", "trace=openat,open,write,pwrite64,pwritev,writev,ftruncate,fallocate,access,faccessat,faccessat2,close,unlink,rename,renameat,renameat2", "-o", log,
               binary, "--prop", "C09", "--tier", "quick", "--seed", str(run.seed), "--first", str(case), "--inproc", "--scratch", d]
        r = subprocess.run(cmd, stdout=subprocess.PIPE, stderr=subprocess.PIPE, text=True)
        if r.returncode != 0 or not os.path.exists(log):
            run.inconclusive.append({"case": case, "why": "strace run failed", "stderr": r.stderr[-300:]})
            shutil.rmtree(d, ignore_errors=True)
            continue
        active = {}      # pid -> in ro session
        fds = {}         # (pid-group ignored) fd -> path, for the file under test
        inside = False
        bad = []
        for line in open(log, errors="replace"):
            if "VERIF-MARK-ro-begin" in line:
                inside = True; fds = {}; sessions += 1; continue
            if "VERIF-MARK-ro-end" in line:
                inside = False; continue
            if not inside:
                continue
            m = re.search(r'open(?:at)?\((?:AT_FDCWD, )?"([^"]*c09\.nix[^"]*)", ([A-Z_|]+)[^)]*\)\s*=\s*(-?\d+)', line)
            if m:
                path, flags, fd = m.group(1), m.group(2), int(m.group(3))
                if "O_WRONLY" in flags or "O_RDWR" in flags or "O_TRUNC" in flags or "O_CREAT" in flags:
                    bad.append("opened writable: " + line.strip()[:200])
                if fd >= 0:
                    fds[fd] = path
                continue
            m = re.search(r'\b(write|pwrite64|pwritev|writev|ftruncate|fallocate)\((\d+)', line)
            if m and int(m.group(2)) in fds:
                bad.append("write-family syscall on the file: " + line.strip()[:200])
            m = re.search(r'\bclose\((\d+)\)', line)
            if m:
                fds.pop(int(m.group(1)), None)
            if re.search(r'(unlink|rename\w*)\([^)]*c09\.nix', line):
                bad.append("unlink/rename of the file: " + line.strip()[:200])
        for b in bad[:3]:
            run.add_violation("C09/readonly/syscall/" + b.split(":")[0].replace(" ", "-"), b, {"case": case, "phase": "strace_ro"})
        run.checks += 1
        shutil.rmtree(d, ignore_errors=True)
    run.extra_cov["strace_ro_sessions_monitored"] = sessions
    run.counters["monitored_events"] = run.counters.get("monitored_events", 0) + sessions
