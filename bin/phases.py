# Property-specific phases run by bin/check in addition to the generated workload, and the canary.
import json, os, re, subprocess, sys, time
import vlib
from vlib import VERIF, REPO, log


def canary(binary):
    """Prove that libnixio of the san flavor is instrumented: the canary function inside the library
    must produce an ASan report (heap overflow), and two UBSan reports (signed overflow, null memcpy)."""
    env = vlib.san_env()
    want = {1: "heap-buffer-overflow", 2: "signed integer overflow", 3: "null pointer passed as argument"}
    seen = {}
    for k, needle in want.items():
        r = subprocess.run([binary, "--canary", str(k)], env=env, stdout=subprocess.PIPE, stderr=subprocess.PIPE, text=True)
        seen[needle] = needle in r.stderr
    return {"ok": all(seen.values()), "reports": seen}


def replay(run, bins, rp):
    fn = globals().get("replay_" + rp["phase"])
    if not fn:
        print("no replay for phase", rp["phase"])
        return 2
    return fn(run, bins, rp)


def strace_ro(run, bins, ph):
    """C09 thorough: run ReadOnly-session cases of the rel flavor under strace and require that between the
    ro-begin / ro-end markers the file under test is only ever opened O_RDONLY and that no write-family
    syscall is issued on one of its descriptors."""
    import tempfile, shutil
    binary = bins.get("rel") or vlib.build(["rel"])["rel"]
    n = ph.get("cases", 12)
    sessions = 0
    for i in range(n):
        case = (i // 2) * 8 + (i % 2) * 3          # case indices of the ReadOnly families (index % 8 in {0, 3})
        d = tempfile.mkdtemp(prefix="nixverif-strace-")
        log = os.path.join(d, "strace.log")
        cmd = ["strace", "-f", "-qq", "-e", "trace=openat,open,write,pwrite64,pwritev,writev,ftruncate,fallocate,access,faccessat,faccessat2,close,unlink,rename,renameat,renameat2", "-o", log,
               binary, "--prop", "C09", "--tier", "quick", "--seed", str(run.seed), "--first", str(case), "--inproc", "--scratch", d]
        r = subprocess.run(cmd, stdout=subprocess.PIPE, stderr=subprocess.PIPE, text=True)
        if r.returncode != 0 or not os.path.exists(log):
            run.inconclusive.append({"case": case, "why": "strace run failed", "stderr": r.stderr[-300:]})
            shutil.rmtree(d, ignore_errors=True)
            continue
        active = {}      # pid -> in ro session
        fds = {}         # (pid-group ignored) fd -> path, for the file under test
        inside = False
        bad = []
        for line in open(log, errors="replace"):
            if "VERIF-MARK-ro-begin" in line:
                inside = True; fds = {}; sessions += 1; continue
            if "VERIF-MARK-ro-end" in line:
                inside = False; continue
            if not inside:
                continue
            m = re.search(r'open(?:at)?\((?:AT_FDCWD, )?"([^"]*c09\.nix[^"]*)", ([A-Z_|]+)[^)]*\)\s*=\s*(-?\d+)', line)
            if m:
                path, flags, fd = m.group(1), m.group(2), int(m.group(3))
                if "O_WRONLY" in flags or "O_RDWR" in flags or "O_TRUNC" in flags or "O_CREAT" in flags:
                    bad.append("opened writable: " + line.strip()[:200])
                if fd >= 0:
                    fds[fd] = path
                continue
            m = re.search(r'\b(write|pwrite64|pwritev|writev|ftruncate|fallocate)\((\d+)', line)
            if m and int(m.group(2)) in fds:
                bad.append("write-family syscall on the file: " + line.strip()[:200])
            m = re.search(r'\bclose\((\d+)\)', line)
            if m:
                fds.pop(int(m.group(1)), None)
            if re.search(r'(unlink|rename\w*)\([^)]*c09\.nix', line):
                bad.append("unlink/rename of the file: " + line.strip()[:200])
        for b in bad[:3]:
            run.add_violation("C09/readonly/syscall/" + b.split(":")[0].replace(" ", "-"), b, {"case": case, "phase": "strace_ro"})
        run.checks += 1
        shutil.rmtree(d, ignore_errors=True)
    run.extra_cov["strace_ro_sessions_monitored"] = sessions
    run.counters["monitored_events"] = run.counters.get("monitored_events", 0) + sessions


def memcheck(run, bins, ph):
    """thorough tier: re-run a slice of the generated cases of this property on the shipped-flags (rel) build under
    valgrind memcheck. ASan does not see stores done by the uninstrumented HDF5 library into nix-supplied buffers
    unless they pass through an intercepted libc call; memcheck does. Undefined-value reports are switched off
    (HDF5 writes padding bytes), invalid reads / writes / frees are what is looked for."""
    import concurrent.futures, tempfile, shutil
    binary = bins.get("rel") or vlib.build(["rel"])["rel"]
    n = ph.get("cases", 16)
    step = max(1, ph.get("stride", 7))

    def one(i):
        case = i * step
        d = tempfile.mkdtemp(prefix="nixverif-vg-")
        log = os.path.join(d, "vg.log")
        cmd = ["valgrind", "--tool=memcheck", "--leak-check=no", "--undef-value-errors=no", "--error-exitcode=97", "--num-callers=25", "--log-file=" + log,
               binary, "--prop", run.prop, "--tier", "quick", "--seed", str(run.seed), "--first", str(case), "--inproc", "--scratch", d]
        try:
            r = subprocess.run(cmd, stdout=subprocess.PIPE, stderr=subprocess.PIPE, text=True, timeout=ph.get("timeout", 900))
            rc, out = r.returncode, r.stdout
        except subprocess.TimeoutExpired:
            rc, out = -1, ""
        txt = open(log, errors="replace").read() if os.path.exists(log) else ""
        shutil.rmtree(d, ignore_errors=True)
        return case, rc, out, txt

    done = 0
    with concurrent.futures.ThreadPoolExecutor(max_workers=vlib.JOBS) as ex:
        for case, rc, out, txt in ex.map(one, range(n)):
            if rc == -1:
                run.inconclusive.append({"case": case, "why": "memcheck timeout"})
                continue
            done += 1
            errs = re.findall(r"==\d+== (Invalid (?:read|write|free)[^\n]*|Mismatched free[^\n]*|Source and destination overlap[^\n]*|Process terminating[^\n]*)", txt)
            if rc == 97 or errs or rc < 0 or rc > 100:
                first = errs[0] if errs else "exit code %d" % rc
                m = re.search(r"(?:by|at) 0x[0-9A-F]+: (nix::[\w:~<>]+)", txt)
                fn = m.group(1) if m else "no-nix-frame"
                key = "%s/memcheck/%s/%s" % (run.prop, re.sub(r"\W+", "-", first.split(" of size")[0])[:40], fn)
                run.add_violation(key, "valgrind memcheck on the shipped-flags build, case %d:\n%s" % (case, txt[:2500]), {"case": case, "phase": "memcheck"})
            else:
                # the in-process run prints the case record: oracle violations found there count as well
                try:
                    res = json.loads(out.strip().splitlines()[-1])
                    for v in res.get("violations", []):
                        run.add_violation(v["key"], v["detail"], {"case": case, "phase": "memcheck"})
                    run.checks += res.get("checks", 0)
                except Exception:
                    pass
    run.extra_cov["memcheck_cases"] = done
    run.counters["monitored_events"] = run.counters.get("monitored_events", 0) + done
