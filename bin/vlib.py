# Shared helpers for bin/vbuild, bin/check, bin/baseline-off (python3 stdlib only).
import fcntl, hashlib, json, os, shutil, subprocess, sys, time

VERIF = os.path.dirname(os.path.dirname(os.path.abspath(__file__)))
REPO = os.environ.get("VERIF_REPO", "/repo")
GUARD = "NIX_VERIF_HOOKS"
JOBS = int(os.environ.get("VERIF_JOBS", "16"))

COMMON = "-g -fno-omit-frame-pointer -D%s" % GUARD
FLAVORS = {
    # no -DNDEBUG in san: assert/BOOST_ASSERT/_GLIBCXX_ASSERTIONS are monitors too
    "san": {
        "cxx": "-O1 %s -fsanitize=address,undefined -fsanitize=float-cast-overflow "
               "-fno-sanitize-recover=address -D_GLIBCXX_ASSERTIONS" % COMMON,
        "ld": "-fsanitize=address,undefined",
    },
    # the shipped optimisation level; used for valgrind / strace / pure-compute sweeps
    "rel": {
        "cxx": "-O2 -DNDEBUG %s" % COMMON,
        "ld": "",
    },
    # development only (bin/covreport): line / function coverage of the library under the generated workloads
    "cov": {
        "cxx": "-O0 --coverage -DVERIF_COV %s" % COMMON,
        "ld": "--coverage",
    },
}


def build_root():
    """Build trees live under /verif/.build; a repo other than /repo (scratch copies of
    mutants) gets its own tree so it never disturbs the main one."""
    if os.path.realpath(REPO) == "/repo":
        return os.path.join(VERIF, ".build")
    h = hashlib.sha1(os.path.realpath(REPO).encode()).hexdigest()[:10]
    return os.path.join(VERIF, ".build", "alt-" + h)


def log(msg):
    sys.stderr.write("[verif] %s\n" % msg)
    sys.stderr.flush()


def run(cmd, **kw):
    return subprocess.run(cmd, **kw)


class Lock:
    def __init__(self, path):
        os.makedirs(os.path.dirname(path), exist_ok=True)
        self.f = open(path, "w")

    def __enter__(self):
        fcntl.flock(self.f, fcntl.LOCK_EX)
        return self

    def __exit__(self, *a):
        fcntl.flock(self.f, fcntl.LOCK_UN)
        self.f.close()


def harness_sources():
    src = []
    for sub in ("core", "props"):
        d = os.path.join(VERIF, "harness", sub)
        for fn in sorted(os.listdir(d)):
            if fn.endswith(".cpp"):
                src.append(os.path.join(d, fn))
    return src


def build_flavor(flavor, quiet=True):
    """(Re)build libnixio from REPO's working tree in `flavor`, then nixmon against it.
    Returns path of the nixmon binary. Raises RuntimeError on build failure."""
    fl = FLAVORS[flavor]
    root = os.path.join(build_root(), flavor)
    nixdir = os.path.join(root, "nix")
    hdir = os.path.join(root, "harness")
    os.makedirs(nixdir, exist_ok=True)
    os.makedirs(hdir, exist_ok=True)
    out = subprocess.DEVNULL if quiet else None
    t0 = time.time()
    # always re-configure: the source list is a configure-time glob
    cfg = ["cmake", "-G", "Ninja", "-S", REPO, "-B", nixdir, "-DCMAKE_BUILD_TYPE=None",
           "-DBUILD_TESTING=OFF", "-DCMAKE_CXX_FLAGS_INIT=" + fl["cxx"],
           "-DCMAKE_SHARED_LINKER_FLAGS=" + fl["ld"], "-DCMAKE_EXPORT_COMPILE_COMMANDS=ON",
           "-Wno-dev"]
    r = run(cfg, stdout=subprocess.PIPE, stderr=subprocess.STDOUT, text=True)
    if r.returncode != 0:
        raise RuntimeError("cmake configure failed for %s:\n%s" % (flavor, r.stdout[-4000:]))
    r = run(["ninja", "-C", nixdir, "-j", str(JOBS), "nixio"], stdout=subprocess.PIPE,
            stderr=subprocess.STDOUT, text=True)
    if r.returncode != 0:
        raise RuntimeError("libnixio build failed for %s:\n%s" % (flavor, r.stdout[-6000:]))
    # prove the flags arrived (CMakeLists overwrites CMAKE_CXX_FLAGS, see DESIGN §0)
    cc = os.path.join(nixdir, "compile_commands.json")
    txt = open(cc).read()
    if flavor == "san" and "-fsanitize=address" not in txt:
        raise RuntimeError("san flavor is not instrumented (flags dropped by CMake)")
    if "-D" + GUARD not in txt:
        raise RuntimeError("hook guard missing from compile commands")
    # harness: generated ninja file, header deps tracked by gcc depfiles
    inc = ["-I" + os.path.join(REPO, "include"), "-I" + os.path.join(nixdir, "include"),
           "-I" + os.path.join(REPO, "backend"),
           "-I/usr/include/hdf5/serial", "-I" + os.path.join(VERIF, "harness")]
    cxxflags = "-std=c++17 -Wall -Wno-deprecated-declarations -Wno-unused-function " + fl["cxx"] + " " + " ".join(inc)
    ldflags = "%s -rdynamic -L%s -Wl,-rpath,%s -lnixio -lhdf5_serial -lboost_filesystem -lboost_system -lboost_regex -lpthread -ldl" % (
        fl["ld"], nixdir, nixdir)
    lines = ["cxxflags = " + cxxflags, "ldflags = " + ldflags,
             "rule cxx", "  command = g++ $cxxflags -MMD -MF $out.d -c $in -o $out",
             "  depfile = $out.d", "  deps = gcc", "  description = CXX $out",
             "rule link", "  command = g++ $in -o $out $ldflags", "  description = LINK $out", ""]
    objs = []
    for s in harness_sources():
        o = os.path.basename(s)[:-4] + ".o"
        objs.append(o)
        lines.append("build %s: cxx %s" % (o, s))
    lines.append("build nixmon: link %s | %s" % (" ".join(objs), os.path.join(nixdir, "libnixio.so")))
    lines.append("default nixmon")
    nf = os.path.join(hdir, "build.ninja")
    new = "\n".join(lines) + "\n"
    if not os.path.exists(nf) or open(nf).read() != new:
        open(nf, "w").write(new)
    r = run(["ninja", "-C", hdir, "-j", str(JOBS)], stdout=subprocess.PIPE,
            stderr=subprocess.STDOUT, text=True)
    if r.returncode != 0:
        raise RuntimeError("harness build failed for %s:\n%s" % (flavor, r.stdout[-8000:]))
    log("built %s from %s in %.1fs" % (flavor, REPO, time.time() - t0))
    return os.path.join(hdir, "nixmon")


def build(flavors):
    with Lock(os.path.join(VERIF, ".build", "lock")):
        return {f: build_flavor(f) for f in flavors}


def san_env(extra=None):
    env = dict(os.environ)
    env["ASAN_OPTIONS"] = "abort_on_error=1:detect_leaks=0:allocator_may_return_null=0:handle_abort=1:detect_stack_use_after_return=0"
    env["UBSAN_OPTIONS"] = "print_stacktrace=1:halt_on_error=0"
    if extra:
        env.update(extra)
    return env
